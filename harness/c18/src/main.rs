//! C18, dynamic clause: many threads reading one `&Arena` (directly and through `par_iter`)
//! observe exactly what a single thread observes.
//!
//!   itv-c18 run --tier quick|thorough --seed N --out partial.json [--build label]
//!   itv-c18 replay --file replay.json
use indextree::{Arena, NodeEdge, NodeId};
use itv_core::engine::run_history_on;
use itv_core::gen::{history_strategy, Profile};
use itv_core::ir::{splitmix, Op};
use itv_core::payload::Plain;
use itv_core::world::{fnv, StepCfg, World};
use proptest::strategy::{Strategy, ValueTree};
use proptest::test_runner::{Config, RngAlgorithm, TestRng, TestRunner};
use rayon::prelude::*;
use serde::{Deserialize, Serialize};
use serde_json::json;
use std::sync::Barrier;
use std::time::Instant;

const THREADS: usize = 16;

#[derive(Serialize, Deserialize, Clone)]
struct Replay {
    property: String,
    sig: String,
    message: String,
    seed: u64,
    ops: Vec<Op>,
    prog_seed: u64,
}

fn arg(args: &[String], name: &str) -> Option<String> {
    args.iter().position(|a| a == name).and_then(|i| args.get(i + 1).cloned())
}

/// one reader program: a list of (iterator kind, start node) reads, each folded into a hash
#[allow(deprecated)]
fn run_program(arena: &Arena<Plain>, live: &[NodeId], seed: u64, len: usize) -> Vec<u64> {
    let mut out = Vec::with_capacity(len);
    let mut s = seed;
    let cap = arena.count() * 2 + 2;
    for _ in 0..len {
        s = splitmix(s);
        if live.is_empty() {
            out.push(arena.count() as u64);
            continue;
        }
        let id = live[(s >> 8) as usize % live.len()];
        let ids = |it: &mut dyn Iterator<Item = NodeId>| -> u64 {
            let mut h = 0xabcdu64;
            for (k, i) in it.enumerate() {
                if k > cap {
                    break;
                }
                let p = arena[i].get();
                h = splitmix(h ^ usize::from(i) as u64 ^ ((p.val as u64) << 32) ^ p.serial.rotate_left(17));
            }
            h
        };
        let edges = |it: &mut dyn Iterator<Item = NodeEdge>| -> u64 {
            let mut h = 0xe0e0u64;
            for (k, e) in it.enumerate() {
                if k > cap {
                    break;
                }
                h = splitmix(h ^ match e {
                    NodeEdge::Start(i) => usize::from(i) as u64 * 2,
                    NodeEdge::End(i) => usize::from(i) as u64 * 2 + 1,
                });
            }
            h
        };
        let h = match s % 12 {
            0 => ids(&mut id.ancestors(arena)),
            1 => ids(&mut id.predecessors(arena)),
            2 => ids(&mut id.preceding_siblings(arena)),
            3 => ids(&mut id.following_siblings(arena)),
            4 => ids(&mut id.children(arena)),
            5 => ids(&mut id.children(arena).rev()),
            6 => ids(&mut id.reverse_children(arena)),
            7 => ids(&mut id.descendants(arena)),
            8 => edges(&mut id.traverse(arena)),
            9 => edges(&mut id.reverse_traverse(arena)),
            10 => fnv(&format!("{:?}", id.debug_pretty_print(arena))),
            _ => {
                // whole-arena reads: sequential iter and par_iter must agree with each other too
                let seq: u64 = arena.iter().filter(|n| !n.is_removed()).map(|n| n.get().val as u64 + 1).sum();
                let par: u64 = arena.par_iter().filter(|n| !n.is_removed()).map(|n| n.get().val as u64 + 1).sum();
                let n = arena.get_node_id(&arena[id]).map_or(0, |i| usize::from(i) as u64);
                splitmix(seq ^ par.rotate_left(1) ^ n)
            }
        };
        out.push(h);
    }
    out
}

/// returns Err(message) if some thread observed something else than the single-threaded run
fn check_arena(arena: &Arena<Plain>, live: &[NodeId], prog_seed: u64, reps: usize) -> Result<u64, String> {
    let len = 8 + (prog_seed % 24) as usize;
    let seeds: Vec<u64> = (0..THREADS as u64).map(|t| splitmix(prog_seed ^ t.wrapping_mul(0x9E37_79B9))).collect();
    let expected: Vec<Vec<u64>> = seeds.iter().map(|&s| run_program(arena, live, s, len)).collect();
    let mut evals = 0u64;
    for rep in 0..reps {
        let barrier = Barrier::new(THREADS);
        let got: Vec<Vec<u64>> = std::thread::scope(|sc| {
            let hs: Vec<_> = seeds
                .iter()
                .map(|&s| {
                    let barrier = &barrier;
                    sc.spawn(move || {
                        barrier.wait();
                        run_program(arena, live, s, len)
                    })
                })
                .collect();
            hs.into_iter().map(|h| h.join().unwrap_or_default()).collect()
        });
        evals += (THREADS * len) as u64;
        for t in 0..THREADS {
            if got[t] != expected[t] {
                let k = (0..len).find(|&k| got[t].get(k) != expected[t].get(k)).unwrap_or(0);
                return Err(format!("repetition {rep}: thread {t} read #{k} observed {:?}, a single thread observes {:?}", got[t].get(k), expected[t].get(k)));
            }
        }
    }
    // through par_iter the readers must see exactly the nodes iter() shows (removed slots included)
    if let Some(Err(m)) = <Plain as itv_core::payload::Payload>::par_check(arena) {
        return Err(format!("par_iter: {m}"));
    }
    let (seq_all, seq_removed) = (arena.iter().count(), arena.iter().filter(|n| n.is_removed()).count());
    let par_views: Vec<(usize, usize)> = std::thread::scope(|sc| {
        let hs: Vec<_> = (0..4).map(|_| sc.spawn(|| (arena.par_iter().count(), arena.par_iter().filter(|n| n.is_removed()).count()))).collect();
        hs.into_iter().map(|h| h.join().unwrap_or((usize::MAX, usize::MAX))).collect()
    });
    evals += 5;
    if let Some(v) = par_views.iter().find(|v| **v != (seq_all, seq_removed)) {
        return Err(format!("par_iter: a reader thread counted {:?} (nodes, removed) through par_iter(), iter() shows ({seq_all}, {seq_removed})", v));
    }
    // an arena moved into another thread behaves the same
    let moved = arena.clone();
    let live2 = live.to_vec();
    let s0 = seeds[0];
    let r = std::thread::spawn(move || run_program(&moved, &live2, s0, len)).join().map_err(|_| "reader thread panicked".to_string())?;
    if r != expected[0] {
        return Err("an arena moved into another thread is observed differently".into());
    }
    Ok(evals + len as u64)
}

fn build_world(ops: &[Op], prof: &Profile) -> Option<World<Plain>> {
    let mut w: World<Plain> = World::new();
    let run = run_history_on(&mut w, ops, prof, &StepCfg::default(), false);
    if run.fail.is_some() {
        return None; // structural failures are judged by C01..C13
    }
    Some(w)
}

fn main() {
    itv_core::silence_panics();
    let args: Vec<String> = std::env::args().collect();
    let cmd = args.get(1).map(|s| s.as_str()).unwrap_or("");
    let seed: u64 = arg(&args, "--seed").and_then(|s| s.parse().ok()).unwrap_or(0);
    let seed = if seed == 0 { 0x5EED_1DEA_2026 } else { seed };
    let mut prof = Profile::for_prop("C09");
    prof.name = "C18";
    prof.w_probe = 0;
    prof.deep.at_end = false;
    prof.w_set = 2;
    match cmd {
        "replay" => {
            let file = arg(&args, "--file").expect("--file");
            let rf: Replay = serde_json::from_str(&std::fs::read_to_string(&file).expect("read")).expect("parse");
            let Some(w) = build_world(&rf.ops, &prof) else {
                println!("REPLAY-PASSES property=C18 (history no longer builds an arena)");
                return;
            };
            let live: Vec<NodeId> = w.m.live_slots().iter().map(|&s| w.m.n[s].id).collect();
            match check_arena(&w.arena, &live, rf.prog_seed, 200) {
                Err(m) => {
                    println!("  FAIL: {m}");
                    println!("REPLAY-FAILS property=C18 file={file}");
                    std::process::exit(1);
                }
                Ok(_) => println!("REPLAY-PASSES property=C18 file={file}"),
            }
        }
        "run" => {
            let t0 = Instant::now();
            let tier = arg(&args, "--tier").unwrap_or_else(|| "quick".into());
            let build = arg(&args, "--build").unwrap_or_else(|| "rel".into());
            let out_path = arg(&args, "--out").unwrap_or_else(|| "/verif/target/partials/C18.json".into());
            let cases: u64 = arg(&args, "--cases").and_then(|s| s.parse().ok()).unwrap_or(if tier == "thorough" { 5000 } else { 600 });
            let reps = if tier == "thorough" { 4 } else { 3 };
            let mut sb = [0u8; 32];
            let mut s = splitmix(seed ^ 0xC18);
            for ch in sb.chunks_mut(8) {
                s = splitmix(s);
                ch.copy_from_slice(&s.to_le_bytes());
            }
            let mut runner = TestRunner::new_with_rng(Config { cases: 1, failure_persistence: None, ..Config::default() }, TestRng::from_seed(RngAlgorithm::ChaCha, &sb));
            let strat = (history_strategy(&prof), proptest::num::u64::ANY);
            let mut evals = 0u64;
            let mut nt = std::collections::HashSet::new();
            let mut samples = Vec::new();
            let mut built = 0u64;
            let mut violation = serde_json::Value::Null;
            let mut code = 0;
            for i in 0..cases {
                let Ok(tree) = strat.new_tree(&mut runner) else { continue };
                let (ops, prog_seed) = tree.current();
                let Some(w) = build_world(&ops, &prof) else { continue };
                built += 1;
                let live: Vec<NodeId> = w.m.live_slots().iter().map(|&s| w.m.n[s].id).collect();
                match check_arena(&w.arena, &live, prog_seed, reps) {
                    Ok(e) => {
                        evals += e;
                        let depth = w.m.live_slots().iter().map(|&s| w.m.depth(s)).max().unwrap_or(0);
                        if live.len() >= 4 && depth >= 2 {
                            nt.insert(fnv(&w.m.shape()));
                            if samples.len() < 3 && i % 40 == 0 {
                                samples.push(json!({"forest_shape": w.m.shape(), "live_nodes": live.len(), "reader_threads": THREADS, "reads_per_thread": 8 + (prog_seed % 24), "program_seed": prog_seed}));
                            }
                        }
                    }
                    Err(m) => {
                        std::fs::create_dir_all("/verif/replays/C18").ok();
                        let path = format!("/verif/replays/C18/{:016x}-{build}.json", fnv(&m));
                        let rf = Replay { property: "C18".into(), sig: "threads/observation-differs".into(), message: m.clone(), seed, ops: ops.clone(), prog_seed };
                        std::fs::write(&path, serde_json::to_string_pretty(&rf).unwrap()).ok();
                        println!("VIOLATION property=C18 replay={path}");
                        println!("  {m}");
                        violation = json!({"sig": rf.sig, "msg": m, "replay": path});
                        code = 1;
                        break;
                    }
                }
            }
            let partial = json!({
                "property_id": "C18", "tier": tier, "build": build, "seed": seed, "label": format!("{THREADS} concurrent readers + par_iter on generated arenas ({build} build)"),
                "evaluations": evals, "distinct_nontrivial": nt.len(), "cases": built,
                "engines": {"random": {"arenas": built, "reader_threads": THREADS, "repetitions_per_arena": reps}},
                "samples": samples, "violation": violation, "wall_s": t0.elapsed().as_secs_f64(),
            });
            std::fs::write(&out_path, serde_json::to_string_pretty(&partial).unwrap()).expect("write partial");
            println!("itv-c18 {tier} {build}: {built} arenas, {evals} concurrent reads compared, {} distinct non-trivial shapes, {:.1}s", nt.len(), t0.elapsed().as_secs_f64());
            std::process::exit(code);
        }
        _ => {
            eprintln!("usage: itv-c18 run|replay");
            std::process::exit(2);
        }
    }
}
