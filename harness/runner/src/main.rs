//! itv — history-based checks for C01..C13.
//!
//!   itv run    --prop C03 --tier quick|thorough --seed N --build dbg|rel --out partial.json
//!              [--exclude sigprefix,sigprefix] [--digests file] [--workers 16]
//!   itv replay --prop C03 --file replay.json [--any-sig]      exit 0 = passes, 1 = still fails
//!   itv emit   --prop C03 --seed N --worker W --case I        print the generated history
//!   itv decode --file bytes                                   print the history a fuzz input decodes to

use itv_core::engine::*;
use itv_core::engine::watch;
use itv_core::gen::Profile;
use itv_core::ir::Op;
use itv_core::payload::{IntP, MapP, OptP, Payload, Plain, StrP, Tracked, U128P, UnitLikeP};
use itv_core::world::StepCfg;
use serde_json::json;
use std::collections::BTreeMap;
use std::sync::atomic::{AtomicBool, Ordering};
use std::sync::{Arc, Mutex};
use std::time::Instant;


fn arg(args: &[String], name: &str) -> Option<String> {
    args.iter().position(|a| a == name).and_then(|i| args.get(i + 1).cloned())
}
fn flag(args: &[String], name: &str) -> bool {
    args.iter().any(|a| a == name)
}

struct Plan {
    /// histories that start by growing the arena beyond 65 536 slots
    big_cases: u64,
    random_cases: u64,
    long_cases: u64,
    long_ops: usize,
    enum_empty: Vec<(usize, usize)>,
    /// (nodes, depth)
    enum_shapes: Vec<(usize, usize)>,
}

fn plan(prop: &str, tier: &str) -> Plan {
    let quick = tier != "thorough";
    let structural = matches!(prop, "C01" | "C02" | "C03" | "C04" | "C05" | "C12");
    // measured on 16 cores (release build): E(5,4) 0.5 s, E(6,4) 28 s, E'(2,4) 3 s, E'(2,5) 21 s, E'(1,6) 0.5 s
    let mut p = if quick {
        Plan { big_cases: 16, random_cases: 9_600, long_cases: 320, long_ops: 200, enum_empty: vec![(4, 4)], enum_shapes: vec![(3, 2), (4, 1), (5, 1)] }
    } else {
        Plan { big_cases: 64, random_cases: 160_000, long_cases: 16_000, long_ops: 250, enum_empty: vec![(5, 4)], enum_shapes: vec![(4, 2), (5, 1), (6, 1)] }
    };
    if structural && quick {
        p.random_cases = 6_400;
        p.long_cases = 160;
        p.enum_empty = vec![(5, 4)];
        p.enum_shapes = vec![(4, 2), (5, 1)];
    }
    if structural && !quick {
        p.enum_empty = vec![(6, 4)];
        p.enum_shapes = vec![(5, 2), (6, 1)];
    }
    match prop {
        "C06" => {
            p.random_cases = if quick { 1280 } else { 40_000 };
            p.long_cases = 0;
            p.big_cases = 0;
            p.enum_empty = vec![];
            p.enum_shapes = vec![];
        }
        "C17" => {
            p.random_cases = if quick { 1600 } else { 10_000 };
            p.long_cases = if quick { 0 } else { 800 };
            p.big_cases = 0;
            p.enum_empty = vec![(3, 3)];
            p.enum_shapes = vec![];
        }
        "C16" => {
            p.enum_empty = vec![];
            p.enum_shapes = vec![];
            p.random_cases = if quick { 6000 } else { 200_000 };
            p.long_cases = if quick { 0 } else { 20_000 };
            p.big_cases = 0;
        }
        "C13" => {
            p.enum_empty = vec![];
            p.enum_shapes = vec![];
            p.random_cases = if quick { 8000 } else { 300_000 };
            p.long_cases = if quick { 0 } else { 20_000 };
            p.big_cases = 0;
        }
        "C09" | "C10" | "C11" | "C07" | "C08" => {
            if !quick {
                // cheap per case: go three times deeper than the structural properties
                p.random_cases = 480_000;
                p.long_cases = 32_000;
            }
        }
        _ => {}
    }
    p
}

fn cfg_for(prop: &str, exclude: &[String]) -> StepCfg {
    StepCfg { exclude: exclude.to_vec(), target: Some(prop.to_string()), ..StepCfg::default() }
}

fn write_replay<P: Payload>(prop: &str, v: &Violation, prof: &Profile, cfg: &StepCfg, seed: u64, build: &str) -> String {
    let rf = make_replay::<P>(v, prof, cfg, seed, build);
    let dir = format!("/verif/replays/{prop}");
    std::fs::create_dir_all(&dir).ok();
    let path = format!("{dir}/{:016x}-{build}.json", itv_core::world::fnv(&v.sig));
    std::fs::write(&path, serde_json::to_string_pretty(&rf).unwrap()).expect("write replay");
    path
}

fn main() {
    itv_core::silence_panics();
    let args: Vec<String> = std::env::args().collect();
    let cmd = args.get(1).map(|s| s.as_str()).unwrap_or("");
    let prop = arg(&args, "--prop").unwrap_or_else(|| "C01".into());
    let seed: u64 = arg(&args, "--seed").and_then(|s| s.parse().ok()).unwrap_or(0);
    let seed = if seed == 0 { 0x5EED_1DEA_2026 } else { seed };
    let build = arg(&args, "--build").unwrap_or_else(|| if cfg!(debug_assertions) { "dbg".into() } else { "rel".into() });
    let exclude: Vec<String> = arg(&args, "--exclude").map(|s| s.split(',').filter(|x| !x.is_empty()).map(|x| x.to_string()).collect()).unwrap_or_default();
    let prof = Profile::for_prop(arg(&args, "--profile").as_deref().unwrap_or(&prop));
    let cfg = cfg_for(&prop, &exclude);
    match cmd {
        "run" if prop == "C14" => std::process::exit(run14(&args, seed, &build)),
        "replay" if prop == "C14" => {
            let file = arg(&args, "--file").expect("--file");
            let rf: itv_core::pretty::PrettyReplay = serde_json::from_str(&std::fs::read_to_string(&file).expect("read replay")).expect("parse replay");
            let o = itv_core::pretty::eval(&rf.case, false);
            match o.failure {
                Some(f) => {
                    println!("  FAIL {}: {}", f.sig, f.msg);
                    println!("REPLAY-FAILS property=C14 sig={} file={file}", f.sig);
                    std::process::exit(1);
                }
                None => println!("REPLAY-PASSES property=C14 file={file}"),
            }
        }
        "run" if prop == "C16" => {
            if Plain::roundtrip(&indextree::Arena::new()).is_none() {
                eprintln!("this binary was built without the deser feature");
                std::process::exit(2);
            }
            // the same engine over five payload shapes on the wire: struct, bare integer, optional, string, tuple
            let which = arg(&args, "--payload").unwrap_or_else(|| "struct".into());
            let code = match which.as_str() {
                "int" => run::<IntP>(&args, &prop, seed ^ 0x11, &build, prof, cfg),
                "opt" => run::<OptP>(&args, &prop, seed ^ 0x22, &build, prof, cfg),
                "str" => run::<StrP>(&args, &prop, seed ^ 0x33, &build, prof, cfg),
                "tuple" => run::<UnitLikeP>(&args, &prop, seed ^ 0x44, &build, prof, cfg),
                "u128" => run::<U128P>(&args, &prop, seed ^ 0x55, &build, prof, cfg),
                "map" => run::<MapP>(&args, &prop, seed ^ 0x66, &build, prof, cfg),
                _ => run::<Plain>(&args, &prop, seed, &build, prof, cfg),
            };
            std::process::exit(code)
        }
        "run" if prop == "C17" => std::process::exit(run::<Plain>(&args, &prop, seed, &build, prof, cfg)),
        "run" => std::process::exit(run::<Tracked>(&args, &prop, seed, &build, prof, cfg)),
        "replay" => {
            let file = arg(&args, "--file").expect("--file");
            let rf: ReplayFile = serde_json::from_str(&std::fs::read_to_string(&file).expect("read replay")).expect("parse replay");
            let prof = Profile::for_prop(&rf.profile);
            let cfg = cfg_for(&prop, &[]);
            let run = if rf.profile == "C16" && arg(&args, "--payload").as_deref() == Some("int") {
                eval_case::<IntP>(&rf.ops, &prof, &cfg, true)
            } else if rf.profile == "C16" && arg(&args, "--payload").as_deref() == Some("opt") {
                eval_case::<OptP>(&rf.ops, &prof, &cfg, true)
            } else if rf.profile == "C16" && arg(&args, "--payload").as_deref() == Some("str") {
                eval_case::<StrP>(&rf.ops, &prof, &cfg, true)
            } else if rf.profile == "C16" && arg(&args, "--payload").as_deref() == Some("tuple") {
                eval_case::<UnitLikeP>(&rf.ops, &prof, &cfg, true)
            } else if rf.profile == "C16" && arg(&args, "--payload").as_deref() == Some("u128") {
                eval_case::<U128P>(&rf.ops, &prof, &cfg, true)
            } else if rf.profile == "C16" && arg(&args, "--payload").as_deref() == Some("map") {
                eval_case::<MapP>(&rf.ops, &prof, &cfg, true)
            } else if rf.profile == "C16" || rf.profile == "C17" { eval_case::<Plain>(&rf.ops, &prof, &cfg, true) } else { eval_case::<Tracked>(&rf.ops, &prof, &cfg, true) };
            for l in &run.trace {
                println!("  {l}");
            }
            let mut hit = false;
            if let Some((i, fs, fop)) = &run.fail {
                for f in fs {
                    println!("  FAIL at op {i} [{}] {}: {}", f.props.join(","), f.sig, f.msg);
                    if f.hits(&prop) && (flag(&args, "--any-sig") || f.sig == rf.sig) {
                        hit = true;
                    }
                }
                if let Some(op) = fop {
                    println!("  failing probe call: {:?}", op);
                }
            }
            if hit {
                println!("REPLAY-FAILS property={prop} sig={} file={file}", rf.sig);
                std::process::exit(1);
            }
            println!("REPLAY-PASSES property={prop} file={file}");
        }
        "digest" => {
            // print the observation digest of one history under this build (C17 replay)
            let file = arg(&args, "--file").expect("--file");
            let rf: ReplayFile = serde_json::from_str(&std::fs::read_to_string(&file).expect("read replay")).expect("parse replay");
            let prof = Profile::for_prop(&rf.profile);
            let run = eval_case::<Plain>(&rf.ops, &prof, &cfg_for(&prop, &[]), false);
            println!("DIGEST {:016x} failed={}", run.digest, run.fail.is_some());
        }
        "emit" => {
            let w: u64 = arg(&args, "--worker").and_then(|s| s.parse().ok()).unwrap_or(0);
            let i: u64 = arg(&args, "--case").and_then(|s| s.parse().ok()).unwrap_or(0);
            let ops = regenerate_case(&prof, seed, w, i).expect("case");
            println!("{}", serde_json::to_string(&ops).unwrap());
        }
        "decode" => {
            // fuzz artifact -> replay file (the history / document the bytes decode to)
            let file = arg(&args, "--file").expect("--file");
            let out = arg(&args, "--out");
            let bytes = std::fs::read(&file).expect("read");
            let txt = if prop == "C14" {
                let case = itv_core::pretty::decode_bytes(&bytes).unwrap_or(itv_core::pretty::PrettyCase { nodes: vec![] });
                let rf = itv_core::pretty::PrettyReplay { property: "C14".into(), sig: "fuzz".into(), message: format!("decoded from fuzz input {file}"), seed, build: build.clone(), case, note: String::new() };
                serde_json::to_string_pretty(&rf).unwrap()
            } else {
                let ops = itv_core::gen::decode_bytes(&bytes, 96);
                let rf = ReplayFile { property: prop.clone(), profile: arg(&args, "--profile").unwrap_or_else(|| prop.clone()), sig: "fuzz".into(), message: format!("decoded from fuzz input {file}"), found_by: "libFuzzer".into(), seed, build: build.clone(), ops, trace: vec![], note: String::new() };
                serde_json::to_string_pretty(&rf).unwrap()
            };
            match out {
                Some(o) => std::fs::write(o, txt).expect("write"),
                None => println!("{txt}"),
            }
        }
        _ => {
            eprintln!("usage: itv run|replay|emit|decode …");
            std::process::exit(2);
        }
    }
}

fn run<P: Payload>(args: &[String], prop: &str, seed: u64, build: &str, prof: Profile, cfg: StepCfg) -> i32 {
    let t0 = Instant::now();
    let tier = arg(args, "--tier").unwrap_or_else(|| "quick".into());
    let workers: u64 = arg(args, "--workers").and_then(|s| s.parse().ok()).unwrap_or(16);
    let out_path = arg(args, "--out").unwrap_or_else(|| format!("/verif/target/partial-{prop}-{build}.json"));
    let mut pl = plan(prop, &tier);
    if let Some(c) = arg(args, "--cases").and_then(|s| s.parse::<u64>().ok()) {
        pl.random_cases = c;
        pl.long_cases = 0;
        pl.big_cases = 0;
    }
    if let Some(e) = arg(args, "--enum-shapes") {
        // e.g. "4:2,5:1"
        pl.enum_shapes = e.split(',').filter_map(|x| x.split_once(':')).filter_map(|(a, b)| Some((a.parse().ok()?, b.parse().ok()?))).collect();
    }
    if let Some(e) = arg(args, "--enum-empty") {
        pl.enum_empty = e.split(',').filter_map(|x| x.split_once(':')).filter_map(|(a, b)| Some((a.parse().ok()?, b.parse().ok()?))).collect();
    }
    if flag(args, "--no-big") {
        pl.big_cases = 0;
    }
    if flag(args, "--no-enum") {
        pl.enum_empty.clear();
        pl.enum_shapes.clear();
    }
    // hang supervisor: a single case normally takes well under a second
    {
        let limit: u64 = std::env::var("ITV_HANG_SECS").ok().and_then(|s| s.parse().ok()).unwrap_or(180);
        let (prop_s, build_s) = (prop.to_string(), build.to_string());
        std::thread::spawn(move || loop {
            std::thread::sleep(std::time::Duration::from_millis(1000));
            if let Some((ops, profile, secs)) = watch::overdue(limit) {
                let dir = format!("/verif/replays/{prop_s}");
                std::fs::create_dir_all(&dir).ok();
                let path = format!("{dir}/hang-{build_s}.json");
                let rf = ReplayFile { property: prop_s.clone(), profile, sig: "hang/case-does-not-finish".into(), message: format!("one generated case has been running for {secs} s (normally milliseconds)"), found_by: "watchdog".into(), seed: 0, build: build_s.clone(), ops, trace: vec![], note: String::new() };
                std::fs::write(&path, serde_json::to_string_pretty(&rf).unwrap()).ok();
                println!("HANG property={prop_s} replay={path}");
                std::process::exit(3);
            }
        });
    }
    let mut total = Stats::default();
    let mut engines = BTreeMap::new();
    let mut violation: Option<Violation> = None;

    // ---- 1. replay tier
    let reg_dir = format!("/verif/regressions/{prop}");
    let mut replayed = 0;
    if let Ok(rd) = std::fs::read_dir(&reg_dir) {
        let mut files: Vec<_> = rd.filter_map(|e| e.ok()).map(|e| e.path()).filter(|p| p.extension().map_or(false, |x| x == "json")).collect();
        files.sort();
        for f in files {
            let Ok(txt) = std::fs::read_to_string(&f) else { continue };
            let Ok(rf) = serde_json::from_str::<ReplayFile>(&txt) else { continue };
            let rprof = Profile::for_prop(&rf.profile);
            replayed += 1;
            let run = eval_case::<P>(&rf.ops, &rprof, &StepCfg::default(), false);
            total.evals += run.evals;
            if let Some((_, fs, _)) = &run.fail {
                if let Some(fl) = fs.iter().find(|x| x.hits(prop)) {
                    if !cfg.exclude.iter().any(|e| fl.sig.starts_with(e.as_str())) && violation.is_none() {
                        violation = Some(Violation { prop: prop.into(), sig: fl.sig.clone(), msg: fl.msg.clone(), ops: rf.ops.clone(), found_by: format!("regression file {}", f.display()) });
                    }
                }
            }
        }
    }
    engines.insert("replay", json!({ "files": replayed }));

    // ---- 2. exhaustive small scope
    let shards = workers as usize;
    let mut exh = Vec::new();
    let run_sharded = |f: &(dyn Fn(usize) -> EnumOut + Sync)| -> (Stats, Option<Violation>, u64) {
        let res: Mutex<Vec<(usize, EnumOut)>> = Mutex::new(Vec::new());
        std::thread::scope(|s| {
            for sh in 0..shards {
                let res = &res;
                s.spawn(move || {
                    itv_core::silence_panics();
                    watch::set_worker(sh);
                    let o = f(sh);
                    watch::end(sh);
                    res.lock().unwrap().push((sh, o));
                });
            }
        });
        let mut v = res.into_inner().unwrap();
        v.sort_by_key(|x| x.0);
        let mut st = Stats::default();
        let mut viol = None;
        let mut hist = 0;
        for (_, o) in v {
            hist += o.histories;
            if viol.is_none() {
                viol = o.violation;
            }
            st.merge(o.stats);
        }
        (st, viol, hist)
    };
    if violation.is_none() {
        for &(d, k) in &pl.enum_empty {
            let (st, v, h) = run_sharded(&|sh| enumerate_from_empty::<P>(d, k, prop, &prof, &cfg, sh, shards));
            exh.push(json!({"kind": "E(d,k) from the empty arena", "d": d, "k": k, "histories": h, "exhaustive": v.is_none()}));
            total.merge(st);
            if v.is_some() {
                violation = v;
                break;
            }
        }
    }
    if violation.is_none() {
        for &(n, depth) in &pl.enum_shapes {
            let (st, v, h) = run_sharded(&|sh| enumerate_from_shapes::<P>(n, depth, prop, &prof, &cfg, sh, shards));
            exh.push(json!({"kind": "E'(depth,n) from every forest shape", "nodes": n, "depth": depth, "shapes": st.cases, "histories": h, "exhaustive": v.is_none()}));
            total.merge(st);
            if v.is_some() {
                violation = v;
                break;
            }
        }
    }
    // enumerated violations are already concrete; shrink them as well
    if let Some(v) = violation.as_mut() {
        let min = shrink::<P>(v.ops.clone(), &prof, &cfg, prop, &v.sig.clone());
        v.ops = min;
    }
    engines.insert("exhaustive", json!(exh));

    // ---- 3. random histories
    let mut rnd_cases = 0;
    if violation.is_none() {
        let stop = Arc::new(AtomicBool::new(false));
        let results: Mutex<Vec<(u64, RandomOut)>> = Mutex::new(Vec::new());
        let long_prof = Profile { max_ops: pl.long_ops, min_ops: 60, ..prof.clone() };
        let mut big_prof = Profile { max_ops: 14, min_ops: 5, w_grow: 40, grow: itv_core::gen::GROW_XL, w_churn: 0, ..prof.clone() };
        big_prof.deep.max_cand = big_prof.deep.max_cand.min(4);
        let big_cfg = StepCfg { max_live: 100_000, ..cfg.clone() };
        std::thread::scope(|s| {
            for w in 0..workers {
                let (stop, results, prof, cfg, long_prof, big_prof, big_cfg) = (stop.clone(), &results, &prof, &cfg, &long_prof, &big_prof, &big_cfg);
                let (rc, lc, bc) = (pl.random_cases / workers, pl.long_cases / workers, pl.big_cases / workers);
                s.spawn(move || {
                    itv_core::silence_panics();
                    watch::set_worker(w as usize);
                    let mut o = random_worker::<P>(prop, prof, cfg, seed, w, rc, &stop);
                    if o.violation.is_none() && bc > 0 && !stop.load(Ordering::Relaxed) {
                        let o2 = random_worker::<P>(prop, big_prof, big_cfg, seed ^ 0xB16, w + 2000, bc, &stop);
                        o.stats.merge(o2.stats);
                        o.violation = o2.violation;
                    }
                    if o.violation.is_none() && lc > 0 && !stop.load(Ordering::Relaxed) {
                        let o2 = random_worker::<P>(prop, long_prof, cfg, seed ^ 0x10_06, w + 1000, lc, &stop);
                        o.stats.merge(o2.stats);
                        o.violation = o2.violation;
                    }
                    results.lock().unwrap().push((w, o));
                });
            }
        });
        let mut v = results.into_inner().unwrap();
        v.sort_by_key(|x| x.0);
        for (_, o) in v {
            rnd_cases += o.stats.cases;
            if violation.is_none() {
                violation = o.violation;
            }
            total.merge(o.stats);
        }
    }
    engines.insert("random", json!({"cases": rnd_cases, "workers": workers, "max_ops": prof.max_ops, "long_cases": pl.long_cases, "long_cases_max_ops": pl.long_ops, "big_arena_cases_over_65536_slots": pl.big_cases}));

    // ---- digests
    if let Some(dp) = arg(args, "--digests") {
        let mut d = total.digests.clone();
        d.sort();
        let txt: String = d.iter().map(|(i, h)| format!("{i} {h:016x}\n")).collect();
        std::fs::write(dp, txt).ok();
    }

    // ---- report
    let mut code = 0;
    let mut viol_json = serde_json::Value::Null;
    if let Some(v) = &violation {
        let path = write_replay::<P>(prop, v, &prof, &cfg, seed, build);
        println!("VIOLATION property={prop} replay={path}");
        println!("  sig: {}", v.sig);
        println!("  {}", v.msg);
        println!("  found by: {}", v.found_by);
        viol_json = json!({"sig": v.sig, "msg": v.msg, "replay": path, "found_by": v.found_by, "ops": v.ops.len()});
        code = 1;
    }
    let nt = total.nt.get(prop).map_or(0, |s| s.len());
    let classes: BTreeMap<String, u64> = total.classes.iter().map(|(k, v)| (k.clone(), *v)).collect();
    let zero_classes = expected_classes(prop).into_iter().filter(|c| !classes.keys().any(|k| k.contains(c.as_str()))).collect::<Vec<_>>();
    let partial = json!({
        "property_id": prop, "tier": tier, "build": build, "seed": seed,
        "evaluations": total.evals, "distinct_nontrivial": nt,
        "cases": total.cases, "steps": total.steps, "skipped_ops": total.skipped, "excluded_by_construction": total.excluded,
        "engines": engines, "classes": classes, "features": total.feat, "max_live_hist": total.live_hist, "max_depth_hist": total.depth_hist,
        "samples": total.samples, "other_property_failures": total.other_prop_failures, "slowest_case_ms": total.slowest_case_ms,
        "generator_health": if zero_classes.is_empty() { "ok".to_string() } else { format!("degraded: classes never generated: {:?}", zero_classes) },
        "violation": viol_json, "wall_s": t0.elapsed().as_secs_f64(),
    });
    std::fs::write(&out_path, serde_json::to_string_pretty(&partial).unwrap()).expect("write partial");
    println!("itv {prop} {tier} {build}: {} evaluations, {} distinct non-trivial, {} random cases, slowest case {} ms, {:.1}s", total.evals, nt, rnd_cases, total.slowest_case_ms, t0.elapsed().as_secs_f64());
    code
}

/// classes every structural profile must reach (generator health)
fn expected_classes(prop: &str) -> Vec<String> {
    let mut v = Vec::new();
    if matches!(prop, "C01" | "C02" | "C03" | "C05") {
        for op in ["append", "prepend", "insert_after", "insert_before"] {
            for rel in ["same", "parent", "ancestor", "first-child", "last-child", "descendant", "prev", "next", "sibling", "other-tree", "top-prev", "top-next", "removed-node", "removed-target"] {
                v.push(format!("{op}/{rel}"));
            }
        }
    }
    v
}

#[allow(dead_code)]
fn unused(_: Op) {}

fn run14(args: &[String], seed: u64, build: &str) -> i32 {
    use itv_core::pretty::*;
    let t0 = Instant::now();
    let tier = arg(args, "--tier").unwrap_or_else(|| "quick".into());
    let workers: u64 = arg(args, "--workers").and_then(|s| s.parse().ok()).unwrap_or(16);
    let out_path = arg(args, "--out").unwrap_or_else(|| format!("/verif/target/partial-C14-{build}.json"));
    let (cases, max_nodes) = if tier == "thorough" { (400_000u64, 28usize) } else { (32_000u64, 20usize) };
    let mut found: Option<(PrettyCase, itv_core::world::Failure)> = None;
    let mut evals = 0u64;
    // replay tier
    let mut replayed = 0;
    if let Ok(rd) = std::fs::read_dir("/verif/regressions/C14") {
        let mut files: Vec<_> = rd.filter_map(|e| e.ok()).map(|e| e.path()).filter(|p| p.extension().map_or(false, |x| x == "json")).collect();
        files.sort();
        for f in files {
            let Ok(txt) = std::fs::read_to_string(&f) else { continue };
            let Ok(rf) = serde_json::from_str::<PrettyReplay>(&txt) else { continue };
            replayed += 1;
            let o = eval(&rf.case, false);
            evals += o.evals;
            if let (Some(fl), None) = (o.failure, &found) {
                found = Some((rf.case.clone(), fl));
            }
        }
    }
    let stop = Arc::new(AtomicBool::new(false));
    let results: Mutex<Vec<(u64, (PrettyStats, Option<(PrettyCase, itv_core::world::Failure)>))>> = Mutex::new(Vec::new());
    if found.is_none() {
        std::thread::scope(|s| {
            for w in 0..workers {
                let (stop, results) = (stop.clone(), &results);
                s.spawn(move || {
                    itv_core::silence_panics();
                    let r = pretty_worker(seed, w, cases / workers, max_nodes, &stop);
                    results.lock().unwrap().push((w, r));
                });
            }
        });
    }
    let mut v = results.into_inner().unwrap();
    v.sort_by_key(|x| x.0);
    let mut nt = std::collections::HashSet::new();
    let mut samples = Vec::new();
    let (mut ncases, mut docs, mut ml) = (0u64, 0u64, 0u64);
    let mut hist: BTreeMap<usize, u64> = BTreeMap::new();
    for (_, (st, f)) in v {
        ncases += st.cases;
        evals += st.evals;
        docs += st.docs;
        ml += st.multiline_docs;
        nt.extend(st.nt);
        for (k, c) in st.nodes_hist {
            *hist.entry(k).or_default() += c;
        }
        for s in st.samples {
            if samples.len() < 5 {
                samples.push(s);
            }
        }
        if found.is_none() {
            found = f;
        }
    }
    let mut code = 0;
    let mut viol = serde_json::Value::Null;
    if let Some((case, f)) = &found {
        let dir = "/verif/replays/C14";
        std::fs::create_dir_all(dir).ok();
        let path = format!("{dir}/{:016x}-{build}.json", itv_core::world::fnv(&f.sig));
        let rf = PrettyReplay { property: "C14".into(), sig: f.sig.clone(), message: f.msg.clone(), seed, build: build.into(), case: case.clone(), note: String::new() };
        std::fs::write(&path, serde_json::to_string_pretty(&rf).unwrap()).expect("write replay");
        println!("VIOLATION property=C14 replay={path}");
        println!("  sig: {}", f.sig);
        println!("  {}", f.msg.replace('\n', "\n  "));
        viol = json!({"sig": f.sig, "msg": f.msg, "replay": path});
        code = 1;
    }
    let partial = json!({
        "property_id": "C14", "tier": tier, "build": build, "seed": seed,
        "evaluations": evals, "distinct_nontrivial": nt.len(), "cases": ncases,
        "engines": {"replay": {"files": replayed}, "random": {"cases": ncases, "workers": workers, "max_nodes": max_nodes}},
        "features": {"payloads": docs, "payloads_with_a_multi_line_rendering": ml},
        "max_live_hist": hist, "samples": samples, "violation": viol, "wall_s": t0.elapsed().as_secs_f64(),
    });
    std::fs::write(&out_path, serde_json::to_string_pretty(&partial).unwrap()).expect("write partial");
    println!("itv C14 {tier} {build}: {evals} evaluations (start node x mode), {} distinct non-trivial, {ncases} documents, {:.1}s", nt.len(), t0.elapsed().as_secs_f64());
    code
}
