//! C18, type-level clause: "Arena<T>, Node<T> and NodeId are Send and Sync whenever T is".
//! Decided by compiling this crate: the generic function below is checked by rustc for EVERY
//! `T: Send + Sync`, and the concrete uses share an arena between threads / move one into a thread.
use indextree::{Arena, Node, NodeId};

fn need<X: Send + Sync>() {}

#[allow(dead_code)]
fn for_every_t<T: Send + Sync>() {
    need::<Arena<T>>();
    need::<Node<T>>();
    need::<NodeId>();
}

fn main() {
    for_every_t::<u8>();
    for_every_t::<String>();
    for_every_t::<Vec<Box<dyn Fn() + Send + Sync>>>();
    let mut arena: Arena<String> = Arena::new();
    let a = arena.new_node("a".to_string());
    let b = a.append_value("b".to_string(), &mut arena);
    // shared by reference
    let seen = std::thread::scope(|s| {
        let h: Vec<_> = (0..4).map(|_| s.spawn(|| a.descendants(&arena).map(|i| arena[i].get().len()).sum::<usize>())).collect();
        h.into_iter().map(|h| h.join().unwrap()).collect::<Vec<_>>()
    });
    assert_eq!(seen, vec![2, 2, 2, 2]);
    // moved into a thread, ids and node references sent along
    let node_len = std::thread::spawn(move || {
        let n: &Node<String> = &arena[b];
        n.get().len()
    })
    .join()
    .unwrap();
    assert_eq!(node_len, 1);
    println!("C18-STATIC-OK");
}
