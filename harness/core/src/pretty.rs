//! C14 — debug_pretty_print against an independent reference renderer.
//!
//! Generated input: a forest spec (each node picks its parent among earlier nodes or starts a new
//! top-level tree / joins the previous root's chain), four independent multi-line renderings per
//! payload, and a chunking plan that decides how the payload's `fmt` splits its text into
//! `write_str` calls.  Every node of the forest is used as start node, in all four format modes.

use crate::ir::splitmix;
use crate::world::{fnv, panic_msg, Failure};
use indextree::{Arena, NodeId};
use proptest::prelude::*;
use serde::{Deserialize, Serialize};
use std::fmt;
use std::panic::{catch_unwind, AssertUnwindSafe};

#[derive(Clone, PartialEq, Serialize, Deserialize)]
pub struct Doc {
    /// lines of `{}`, `{:#}`, `{:?}`, `{:#?}`; the last line of each is non-empty
    pub text: [Vec<String>; 4],
    pub chunk_seed: u64,
}

impl Doc {
    fn write(&self, mode: usize, f: &mut fmt::Formatter<'_>) -> fmt::Result {
        let s = self.text[mode].join("\n");
        // chunk plan: cut the text at generated char boundaries; sometimes emit empty chunks and lone "\n"
        let mut seed = splitmix(self.chunk_seed ^ mode as u64);
        let style = seed % 6;
        if style == 0 {
            return f.write_str(&s);
        }
        if style >= 4 {
            // text through write_str, but characters (style 4: every one, style 5: the line breaks) through
            // Formatter::write_char — the way `write!(f, "{}{}", a, '\n')` or a join loop reaches the writer
            use fmt::Write as _;
            let mut buf = String::new();
            for c in s.chars() {
                if style == 4 || c == '\n' {
                    if !buf.is_empty() {
                        f.write_str(&buf)?;
                        buf.clear();
                    }
                    f.write_char(c)?;
                } else {
                    buf.push(c);
                }
            }
            return if buf.is_empty() { Ok(()) } else { f.write_str(&buf) };
        }
        let mut start = 0;
        let bytes = s.as_bytes();
        let mut i = 0;
        while i < bytes.len() {
            // advance to next char boundary
            let mut j = i + 1;
            while j < bytes.len() && !s.is_char_boundary(j) {
                j += 1;
            }
            seed = splitmix(seed);
            let cut = match style {
                1 => true,                                  // one char per call
                2 => seed % 3 == 0,                         // random cuts
                _ => bytes[i] == b'\n' || (j < bytes.len() && bytes[j] == b'\n'), // newline isolated in its own chunk
            };
            if cut {
                f.write_str(&s[start..j])?;
                if seed % 5 == 0 {
                    f.write_str("")?;
                }
                start = j;
            }
            i = j;
        }
        if start < s.len() {
            f.write_str(&s[start..])?;
        }
        Ok(())
    }
}

impl fmt::Display for Doc {
    fn fmt(&self, f: &mut fmt::Formatter<'_>) -> fmt::Result {
        self.write(if f.alternate() { 1 } else { 0 }, f)
    }
}
impl fmt::Debug for Doc {
    fn fmt(&self, f: &mut fmt::Formatter<'_>) -> fmt::Result {
        self.write(if f.alternate() { 3 } else { 2 }, f)
    }
}

#[derive(Clone, Debug, PartialEq, Serialize, Deserialize)]
pub struct NodeSpec {
    /// 0: child of the previous node (depth); 1: sibling of the previous node; 2: child of a
    /// generated earlier node; 3: new top-level tree chained after the previous root; 4: new lone root
    pub how: u8,
    pub pick: u16,
    /// 0 append_value, 1 new_node+append, 2 new_node+prepend (then order is reversed in the model too)
    pub via: u8,
    pub doc: Doc,
}

#[derive(Clone, Debug, PartialEq, Serialize, Deserialize)]
pub struct PrettyCase {
    pub nodes: Vec<NodeSpec>,
}

#[derive(Clone, Debug, Serialize, Deserialize)]
pub struct PrettyReplay {
    pub property: String,
    pub sig: String,
    pub message: String,
    pub seed: u64,
    pub build: String,
    pub case: PrettyCase,
    #[serde(default)]
    pub note: String,
}

fn line_strategy() -> BoxedStrategy<String> {
    prop_oneof![
        6 => "[a-z]{1,6}",
        2 => "[ a-z|`-]{1,8}",
        1 => "[ \t]{1,3}[a-z]{0,2}",
        1 => "[a-zäλ→]{1,4}",
        1 => Just("|-- x".to_string()),
        1 => Just("`-- ".to_string()),
    ]
    .boxed()
}

fn lines_strategy() -> BoxedStrategy<Vec<String>> {
    // interior / first lines may be empty, the last line is non-empty (and not whitespace-free required)
    let inner = prop_oneof![3 => line_strategy(), 1 => Just(String::new())];
    prop_oneof![
        5 => line_strategy().prop_map(|l| vec![l]),
        4 => (proptest::collection::vec(inner, 1..4), line_strategy()).prop_map(|(mut v, last)| {
            v.push(last);
            v
        }),
    ]
    .boxed()
}

fn doc_strategy() -> BoxedStrategy<Doc> {
    (lines_strategy(), lines_strategy(), lines_strategy(), lines_strategy(), any::<u64>())
        .prop_map(|(a, b, c, d, chunk_seed)| Doc { text: [a, b, c, d], chunk_seed })
        .boxed()
}

pub fn case_strategy(max_nodes: usize) -> BoxedStrategy<PrettyCase> {
    let node = (prop_oneof![5 => Just(0u8), 4 => Just(1u8), 3 => Just(2u8), 1 => Just(3u8), 1 => Just(4u8)], any::<u16>(), 0u8..3, doc_strategy())
        .prop_map(|(how, pick, via, doc)| NodeSpec { how, pick, via, doc });
    // "spine" documents: long runs of only/last children (depth 17 … 45), a sibling now and then
    let spine_node = (prop_oneof![12 => Just(0u8), 1 => Just(1u8), 1 => Just(2u8)], any::<u16>(), 0u8..2, doc_strategy())
        .prop_map(|(how, pick, via, doc)| NodeSpec { how, pick, via, doc });
    prop_oneof![
        6 => proptest::collection::vec(node, 1..=max_nodes).prop_map(|nodes| PrettyCase { nodes }),
        1 => proptest::collection::vec(spine_node, 18..=46).prop_map(|nodes| PrettyCase { nodes }),
    ]
    .boxed()
}

/// a sink that fails after `left` bytes — a print into it ends with `Err`, possibly half way
struct Limited {
    left: usize,
}
impl fmt::Write for Limited {
    fn write_str(&mut self, s: &str) -> fmt::Result {
        if s.len() > self.left {
            self.left = 0;
            return Err(fmt::Error);
        }
        self.left -= s.len();
        Ok(())
    }
}

/// the forest as the generator defines it
struct Shape {
    parent: Vec<Option<usize>>,
    kids: Vec<Vec<usize>>,
    /// top-level chains
    chains: Vec<Vec<usize>>,
}

fn build(case: &PrettyCase) -> (Arena<Doc>, Vec<NodeId>, Shape) {
    let mut arena: Arena<Doc> = Arena::new();
    let mut ids: Vec<NodeId> = Vec::new();
    let mut sh = Shape { parent: vec![], kids: vec![], chains: vec![] };
    for (i, ns) in case.nodes.iter().enumerate() {
        // decide the parent (None = top level) from the spec
        let (parent, chain_after_prev_root): (Option<usize>, bool) = if i == 0 {
            (None, false)
        } else {
            match ns.how {
                0 => (Some(i - 1), false),
                1 => (sh.parent[i - 1], sh.parent[i - 1].is_none()),
                2 => (Some(((ns.pick as usize) * i) >> 16), false),
                3 => (None, true),
                _ => (None, false),
            }
        };
        sh.parent.push(parent);
        sh.kids.push(vec![]);
        match parent {
            Some(p) => {
                let id = match ns.via {
                    0 => ids[p].append_value(ns.doc.clone(), &mut arena),
                    1 => {
                        let id = arena.new_node(ns.doc.clone());
                        ids[p].append(id, &mut arena);
                        id
                    }
                    _ => {
                        let id = arena.new_node(ns.doc.clone());
                        ids[p].prepend(id, &mut arena);
                        id
                    }
                };
                if ns.via >= 2 {
                    sh.kids[p].insert(0, i);
                } else {
                    sh.kids[p].push(i);
                }
                ids.push(id);
            }
            None => {
                let id = arena.new_node(ns.doc.clone());
                ids.push(id);
                if chain_after_prev_root && !sh.chains.is_empty() {
                    // join the chain of the most recent top-level node, at its end
                    let ci = sh.chains.len() - 1;
                    let last = *sh.chains[ci].last().unwrap();
                    ids[last].insert_after(id, &mut arena);
                    sh.chains[ci].push(i);
                } else {
                    sh.chains.push(vec![i]);
                }
            }
        }
    }
    (arena, ids, sh)
}

fn has_later_sibling(sh: &Shape, x: usize) -> bool {
    let list = match sh.parent[x] {
        Some(p) => &sh.kids[p],
        None => sh.chains.iter().find(|c| c.contains(&x)).unwrap(),
    };
    let i = list.iter().position(|&y| y == x).unwrap();
    i + 1 < list.len()
}

/// independent reference renderer; returns (lines, flags: payload line is empty)
fn reference(case: &PrettyCase, sh: &Shape, start: usize, mode: usize) -> (Vec<String>, Vec<bool>) {
    let mut out = Vec::new();
    let mut empty = Vec::new();
    // (node, guides of strict ancestors below start)
    fn rec(case: &PrettyCase, sh: &Shape, x: usize, start: usize, guides: &str, mode: usize, out: &mut Vec<String>, empty: &mut Vec<bool>) {
        let later = has_later_sibling(sh, x);
        for (i, l) in case.nodes[x].doc.text[mode].iter().enumerate() {
            let own = if x == start {
                ""
            } else if i == 0 {
                if later {
                    "|-- "
                } else {
                    "`-- "
                }
            } else if later {
                "|   "
            } else {
                "    "
            };
            let g = if x == start { "" } else { guides };
            out.push(format!("{g}{own}{l}"));
            empty.push(l.is_empty());
        }
        let child_guides = if x == start { String::new() } else { format!("{guides}{}", if later { "|   " } else { "    " }) };
        for &c in &sh.kids[x] {
            rec(case, sh, c, start, &child_guides, mode, out, empty);
        }
    }
    rec(case, sh, start, start, "", mode, &mut out, &mut empty);
    (out, empty)
}

pub struct PrettyOut {
    pub failure: Option<Failure>,
    pub evals: u64,
    pub nt: Vec<u64>,
    pub sample: Option<String>,
}

pub const MODES: [&str; 4] = ["{}", "{:#}", "{:?}", "{:#?}"];

pub fn eval(case: &PrettyCase, want_sample: bool) -> PrettyOut {
    let mut o = PrettyOut { failure: None, evals: 0, nt: vec![], sample: None };
    let built = catch_unwind(AssertUnwindSafe(|| build(case)));
    let (arena, ids, sh) = match built {
        Ok(b) => b,
        Err(_) => return o, // building uses plain inserts; their failures are judged by C03/C05
    };
    for start in 0..case.nodes.len() {
        for mode in 0..4 {
            let id = ids[start];
            // a print into a sink that gives up half way must not influence later prints
            if (start + mode) % 3 == 0 {
                let limit = (splitmix(case.nodes[start].doc.chunk_seed ^ mode as u64) % 48) as usize;
                let _ = catch_unwind(AssertUnwindSafe(|| {
                    use fmt::Write as _;
                    let mut sink = Limited { left: limit };
                    match mode {
                        0 => write!(sink, "{}", id.debug_pretty_print(&arena)),
                        1 => write!(sink, "{:#}", id.debug_pretty_print(&arena)),
                        2 => write!(sink, "{:?}", id.debug_pretty_print(&arena)),
                        _ => write!(sink, "{:#?}", id.debug_pretty_print(&arena)),
                    }
                }));
                o.evals += 1;
            }
            let got = catch_unwind(AssertUnwindSafe(|| match mode {
                0 => format!("{}", id.debug_pretty_print(&arena)),
                1 => format!("{:#}", id.debug_pretty_print(&arena)),
                2 => format!("{:?}", id.debug_pretty_print(&arena)),
                _ => format!("{:#?}", id.debug_pretty_print(&arena)),
            }));
            o.evals += 1;
            let got = match got {
                Ok(g) => g,
                Err(e) => {
                    o.failure = Some(Failure::new(&["C14"], format!("pretty/{}/panic", MODES[mode]), format!("printing node #{start} with {} panicked: {}", MODES[mode], panic_msg(e))));
                    return o;
                }
            };
            let (want, empty) = reference(case, &sh, start, mode);
            let got_lines: Vec<&str> = got.split('\n').collect();
            let mut ok = got_lines.len() == want.len();
            if ok {
                for (k, (g, w)) in got_lines.iter().zip(want.iter()).enumerate() {
                    let same = if empty[k] { g.trim_end_matches(' ') == w.trim_end_matches(' ') } else { g == w };
                    if !same {
                        ok = false;
                        break;
                    }
                }
            }
            if !ok {
                o.failure = Some(Failure::new(
                    &["C14"],
                    format!("pretty/{}/mismatch", MODES[mode]),
                    format!("start node #{start}, format {}:\n--- printed ---\n{}\n--- expected ---\n{}", MODES[mode], got, want.join("\n")),
                ));
                return o;
            }
            // non-triviality: multi-line payload below depth 1 under a last-sibling ancestor, or start node with siblings
            let start_has_sibs = has_later_sibling(&sh, start) || {
                let list = match sh.parent[start] {
                    Some(p) => &sh.kids[p],
                    None => sh.chains.iter().find(|c| c.contains(&start)).unwrap(),
                };
                list.len() > 1
            };
            let mut deep_multiline = false;
            for x in 0..case.nodes.len() {
                if case.nodes[x].doc.text[mode].len() > 1 {
                    // depth below start and a last-sibling strict ancestor below start
                    let mut d = 0;
                    let mut cur = x;
                    let mut under_last = false;
                    let mut inside = false;
                    while let Some(p) = sh.parent[cur] {
                        d += 1;
                        if p == start {
                            inside = true;
                            break;
                        }
                        if !has_later_sibling(&sh, p) {
                            under_last = true;
                        }
                        cur = p;
                    }
                    if inside && d >= 2 && under_last {
                        deep_multiline = true;
                    }
                }
            }
            if start_has_sibs && sh.kids[start].len() >= 1 || deep_multiline {
                o.nt.push(fnv(&format!("{}|{}|{}", mode, got.len(), fnv(&got))));
                if want_sample && o.sample.is_none() && got_lines.len() >= 4 && got_lines.len() <= 14 {
                    o.sample = Some(format!("start #{start} {}:\n{}", MODES[mode], got));
                }
            }
        }
    }
    o
}

// ------------------------------------------------------------------------------------------------
// byte decoder (fuzzing)

fn fuzz_lines(b: &mut std::slice::Iter<u8>) -> Vec<String> {
    const ALPHA: &[&str] = &["a", "b", " ", "|", "`", "-", "\t", "ä", "x", "--", "|  ", ""];
    let n = (*b.next().unwrap_or(&0) % 4) as usize + 1;
    let mut v = Vec::new();
    for k in 0..n {
        let len = (*b.next().unwrap_or(&1) % 5) as usize;
        let mut s = String::new();
        for _ in 0..len {
            s.push_str(ALPHA[(*b.next().unwrap_or(&0) as usize) % ALPHA.len()]);
        }
        if k + 1 == n && s.is_empty() {
            s.push('z'); // precondition: the rendering is non-empty and does not end in a newline
        }
        v.push(s);
    }
    v
}

/// arbitrary bytes -> a document inside the property's input domain
pub fn decode_bytes(data: &[u8]) -> Option<PrettyCase> {
    let mut b = data.iter();
    let mut nodes = Vec::new();
    while let Some(&how) = b.next() {
        if nodes.len() >= 24 {
            break;
        }
        let pick = (*b.next().unwrap_or(&0) as u16) << 8;
        let via = *b.next().unwrap_or(&0) % 3;
        let chunk_seed = *b.next().unwrap_or(&0) as u64;
        let text = [fuzz_lines(&mut b), fuzz_lines(&mut b), fuzz_lines(&mut b), fuzz_lines(&mut b)];
        nodes.push(NodeSpec { how: how % 5, pick, via, doc: Doc { text, chunk_seed } });
    }
    if nodes.is_empty() {
        None
    } else {
        Some(PrettyCase { nodes })
    }
}

// ------------------------------------------------------------------------------------------------
// engine

pub struct PrettyStats {
    pub cases: u64,
    pub evals: u64,
    pub nt: std::collections::HashSet<u64>,
    pub samples: Vec<String>,
    pub nodes_hist: std::collections::BTreeMap<usize, u64>,
    pub multiline_docs: u64,
    pub docs: u64,
}

pub fn pretty_worker(seed: u64, worker: u64, cases: u64, max_nodes: usize, stop: &std::sync::atomic::AtomicBool) -> (PrettyStats, Option<(PrettyCase, Failure)>) {
    use proptest::strategy::ValueTree;
    use proptest::test_runner::{Config, RngAlgorithm, TestCaseError, TestError, TestRng, TestRunner};
    use std::cell::RefCell;
    use std::sync::atomic::Ordering;
    let mut seed_bytes = [0u8; 32];
    let mut s = splitmix(seed ^ splitmix(worker.wrapping_mul(0xC14C_14C1_4C14_C14B)));
    for ch in seed_bytes.chunks_mut(8) {
        s = splitmix(s);
        ch.copy_from_slice(&s.to_le_bytes());
    }
    let rng = TestRng::from_seed(RngAlgorithm::ChaCha, &seed_bytes);
    let mut runner = TestRunner::new_with_rng(Config { cases: 1, failure_persistence: None, max_shrink_iters: 4000, ..Config::default() }, rng);
    let strat = case_strategy(max_nodes);
    let stats = RefCell::new(PrettyStats { cases: 0, evals: 0, nt: Default::default(), samples: vec![], nodes_hist: Default::default(), multiline_docs: 0, docs: 0 });
    let target: RefCell<Option<String>> = RefCell::new(None);
    let mut found = None;
    for i in 0..cases {
        if stop.load(Ordering::Relaxed) {
            break;
        }
        let Ok(tree) = strat.new_tree(&mut runner) else { continue };
        let first = RefCell::new(true);
        let res = runner.run_one(tree, |case: PrettyCase| {
            let is_first = first.replace(false);
            let o = eval(&case, is_first && i % 50 == 0);
            if is_first {
                let mut st = stats.borrow_mut();
                st.cases += 1;
                st.evals += o.evals;
                st.nt.extend(o.nt.iter().copied());
                *st.nodes_hist.entry(case.nodes.len() / 4 * 4).or_default() += 1;
                for n in &case.nodes {
                    st.docs += 1;
                    if n.doc.text.iter().any(|t| t.len() > 1) {
                        st.multiline_docs += 1;
                    }
                }
                if let Some(s) = o.sample {
                    if st.samples.len() < 3 {
                        st.samples.push(s);
                    }
                }
            }
            if let Some(f) = o.failure {
                let want = target.borrow().clone();
                if want.as_ref().map_or(true, |w| *w == f.sig) {
                    *target.borrow_mut() = Some(f.sig.clone());
                    return Err(TestCaseError::fail(f.sig));
                }
            }
            Ok(())
        });
        if let Err(TestError::Fail(_, case)) = res {
            stop.store(true, Ordering::Relaxed);
            let f = eval(&case, false).failure.unwrap_or_else(|| Failure::new(&["C14"], "pretty/unstable", "failure did not reproduce after shrinking"));
            found = Some((case, f));
            break;
        }
    }
    (stats.into_inner(), found)
}
