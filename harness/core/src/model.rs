//! Reference model: an ordered forest stored as *children lists* plus a bag of ordered top-level
//! chains (the "implicit parent" of parentless nodes).  Structurally unrelated to indextree's five
//! links per node; every mutation is a list splice.

use indextree::NodeId;
use smallvec::SmallVec;

/// children lists: inline up to 4 entries, so that cloning a model does not allocate per node
pub type Kids = SmallVec<[usize; 4]>;

#[derive(Clone, Copy, Debug, PartialEq, Eq)]
pub enum FreeState {
    /// live, or never allocated
    NotFree,
    /// removed; must be handed out again before the arena grows
    Free,
    /// removed after >= RETIRE_MIN recycles: may or may not be reusable
    MaybeRetired,
    /// observed to be skipped by the allocator: must never come back
    Retired,
}

/// "a slot may be retired for good once it has been recycled so often (tens of thousands of times)"
pub const RETIRE_MIN: u32 = 10_000;

#[derive(Clone, Debug)]
pub struct MNode {
    /// last id issued for this slot
    pub id: NodeId,
    pub live: bool,
    pub parent: Option<usize>,
    pub children: Kids,
    pub serial: u64,
    pub val: u32,
    pub recycles: u32,
    pub free: FreeState,
    /// C12 bookkeeping: how the node went away
    pub removed_with_relatives: bool,
    pub removed_as_descendant: bool,
}

#[derive(Clone, Debug, Default)]
pub struct Model {
    pub n: Vec<MNode>,
    /// top-level sibling chains; every parentless live node is in exactly one; none is empty
    pub chains: Vec<Vec<usize>>,
    pub next_serial: u64,
    /// number of slots in state Free / MaybeRetired (kept in step by `set_free`)
    pub nfree: usize,
    pub nmaybe: usize,
}

pub type Links = [Option<NodeId>; 5]; // parent, prev, next, first, last
pub const LINK_NAMES: [&str; 5] = ["parent", "previous_sibling", "next_sibling", "first_child", "last_child"];

impl Model {
    pub fn new() -> Self {
        Self::default()
    }

    /// the only writer of `MNode::free`
    pub fn set_free(&mut self, slot: usize, st: FreeState) {
        match self.n[slot].free {
            FreeState::Free => self.nfree -= 1,
            FreeState::MaybeRetired => self.nmaybe -= 1,
            _ => {}
        }
        match st {
            FreeState::Free => self.nfree += 1,
            FreeState::MaybeRetired => self.nmaybe += 1,
            _ => {}
        }
        self.n[slot].free = st;
    }

    pub fn clear(&mut self) {
        self.n.clear();
        self.chains.clear();
        self.nfree = 0;
        self.nmaybe = 0;
        // serials keep growing: payload identities are never reused
    }

    pub fn live_slots(&self) -> Vec<usize> {
        (0..self.n.len()).filter(|&i| self.n[i].live).collect()
    }
    pub fn live_count(&self) -> usize {
        self.n.iter().filter(|m| m.live).count()
    }
    /// removed and not recycled (their last id is still "current")
    pub fn removed_slots(&self) -> Vec<usize> {
        (0..self.n.len()).filter(|&i| !self.n[i].live).collect()
    }
    pub fn free_set(&self) -> Vec<usize> {
        (0..self.n.len()).filter(|&i| self.n[i].free == FreeState::Free).collect()
    }
    pub fn maybe_retired(&self) -> Vec<usize> {
        (0..self.n.len()).filter(|&i| self.n[i].free == FreeState::MaybeRetired).collect()
    }

    fn chain_index(&self, x: usize) -> Option<usize> {
        self.chains.iter().position(|c| c.contains(&x))
    }

    /// the sibling list x is in (children of its parent, or its top-level chain)
    pub fn siblings(&self, x: usize) -> &[usize] {
        match self.n[x].parent {
            Some(p) => &self.n[p].children[..],
            None => &self.chains[self.chain_index(x).expect("parentless live node must be in a chain")][..],
        }
    }

    fn take_out(&mut self, x: usize) {
        match self.n[x].parent.take() {
            Some(p) => {
                let ch = &mut self.n[p].children;
                let i = ch.iter().position(|&c| c == x).expect("child in parent's list");
                ch.remove(i);
            }
            None => {
                let ci = self.chain_index(x).expect("chain");
                let i = self.chains[ci].iter().position(|&c| c == x).unwrap();
                self.chains[ci].remove(i);
                if self.chains[ci].is_empty() {
                    self.chains.remove(ci);
                }
            }
        }
    }

    pub fn detach(&mut self, x: usize) {
        self.take_out(x);
        self.chains.push(vec![x]);
    }

    /// `t.<kind>(n)`; caller guarantees the request is possible.
    pub fn insert(&mut self, kind: crate::ir::Kind, t: usize, n: usize) {
        use crate::ir::Kind::*;
        self.take_out(n);
        match kind {
            Append => {
                self.n[n].parent = Some(t);
                self.n[t].children.push(n);
            }
            Prepend => {
                self.n[n].parent = Some(t);
                self.n[t].children.insert(0, n);
            }
            After | Before => {
                let off = if kind == After { 1 } else { 0 };
                let p = self.n[t].parent;
                self.n[n].parent = p;
                match p {
                    Some(p) => {
                        let i = self.n[p].children.iter().position(|&c| c == t).unwrap();
                        self.n[p].children.insert(i + off, n);
                    }
                    None => {
                        let ci = self.chain_index(t).unwrap();
                        let i = self.chains[ci].iter().position(|&c| c == t).unwrap();
                        self.chains[ci].insert(i + off, n);
                    }
                }
            }
        }
    }

    /// remove(x): children take x's place in x's list.
    pub fn remove(&mut self, x: usize) {
        let kids = std::mem::take(&mut self.n[x].children);
        let parent = self.n[x].parent;
        let had_rel = !kids.is_empty() || self.siblings(x).len() > 1 || parent.is_some();
        for &k in &kids {
            self.n[k].parent = parent;
        }
        match parent {
            Some(p) => {
                let i = self.n[p].children.iter().position(|&c| c == x).unwrap();
                self.n[p].children.remove(i);
                self.n[p].children.insert_many(i, kids);
            }
            None => {
                let ci = self.chain_index(x).unwrap();
                let i = self.chains[ci].iter().position(|&c| c == x).unwrap();
                self.chains[ci].splice(i..i + 1, kids);
                if self.chains[ci].is_empty() {
                    self.chains.remove(ci);
                }
            }
        }
        self.mark_removed(x, had_rel, false);
    }

    /// remove_subtree(x): returns the removed slots in pre-order.
    pub fn remove_subtree(&mut self, x: usize) -> Vec<usize> {
        let sub = self.preorder(x);
        let had_rel = sub.len() > 1 || self.siblings(x).len() > 1 || self.n[x].parent.is_some();
        self.take_out(x);
        for (k, &s) in sub.iter().enumerate() {
            self.n[s].children.clear();
            self.n[s].parent = None;
            self.mark_removed(s, had_rel, k > 0);
        }
        sub
    }

    fn mark_removed(&mut self, x: usize, had_rel: bool, as_desc: bool) {
        let m = &mut self.n[x];
        m.live = false;
        m.parent = None;
        m.children.clear();
        m.removed_with_relatives = had_rel;
        m.removed_as_descendant = as_desc;
        let st = if m.recycles >= RETIRE_MIN { FreeState::MaybeRetired } else { FreeState::Free };
        self.set_free(x, st);
    }

    /// A node was created in `slot` with id `id`.
    pub fn alloc(&mut self, slot: usize, id: NodeId, val: u32) -> u64 {
        let serial = self.next_serial;
        self.next_serial += 1;
        if slot == self.n.len() {
            self.n.push(MNode {
                id,
                live: true,
                parent: None,
                children: Kids::new(),
                serial,
                val,
                recycles: 0,
                free: FreeState::NotFree,
                removed_with_relatives: false,
                removed_as_descendant: false,
            });
        } else {
            let m = &mut self.n[slot];
            m.id = id;
            m.live = true;
            m.parent = None;
            m.children.clear();
            m.serial = serial;
            m.val = val;
            m.recycles += 1;
            self.set_free(slot, FreeState::NotFree);
        }
        self.chains.push(vec![slot]);
        serial
    }

    pub fn preorder(&self, x: usize) -> Vec<usize> {
        let mut out = Vec::new();
        let mut stack = vec![x];
        while let Some(y) = stack.pop() {
            out.push(y);
            for &c in self.n[y].children.iter().rev() {
                stack.push(c);
            }
        }
        out
    }

    /// is `a` a proper ancestor of `of`?
    pub fn is_proper_ancestor(&self, a: usize, of: usize) -> bool {
        let mut cur = self.n[of].parent;
        let mut guard = 0;
        while let Some(p) = cur {
            if p == a {
                return true;
            }
            cur = self.n[p].parent;
            guard += 1;
            assert!(guard <= self.n.len(), "model corrupted: parent cycle");
        }
        false
    }

    pub fn depth(&self, x: usize) -> usize {
        let mut d = 0;
        let mut cur = self.n[x].parent;
        while let Some(p) = cur {
            d += 1;
            cur = self.n[p].parent;
        }
        d
    }

    pub fn root_of(&self, x: usize) -> usize {
        let mut r = x;
        while let Some(p) = self.n[r].parent {
            r = p;
        }
        r
    }

    /// Links every slot must report: derived from lists, for live nodes; all `None` for removed.
    pub fn expected_links(&self) -> Vec<Links> {
        let mut out: Vec<Links> = vec![[None; 5]; self.n.len()];
        let id = |s: usize| Some(self.n[s].id);
        let do_list = |list: &[usize], out: &mut Vec<Links>| {
            for (i, &c) in list.iter().enumerate() {
                if i > 0 {
                    out[c][1] = id(list[i - 1]);
                }
                if i + 1 < list.len() {
                    out[c][2] = id(list[i + 1]);
                }
            }
        };
        for ch in &self.chains {
            do_list(ch, &mut out);
        }
        for (s, m) in self.n.iter().enumerate() {
            if !m.live {
                continue;
            }
            out[s][0] = m.parent.and_then(id);
            out[s][3] = m.children.first().copied().and_then(id);
            out[s][4] = m.children.last().copied().and_then(id);
            do_list(&m.children, &mut out);
        }
        out
    }

    /// nested-parentheses rendering of the subtree of `x` (iterative: trees may be 70 000 deep)
    fn paren(&self, x: usize, marks: &[usize], out: &mut String) {
        // (node, next child index)
        let mut stack: Vec<(usize, usize)> = vec![(x, 0)];
        if let Some(k) = marks.iter().position(|&y| y == x) {
            out.push((b'a' + k as u8) as char);
        }
        out.push('(');
        while let Some((n, i)) = stack.pop() {
            if i < self.n[n].children.len() {
                stack.push((n, i + 1));
                let c = self.n[n].children[i];
                if let Some(k) = marks.iter().position(|&y| y == c) {
                    out.push((b'a' + k as u8) as char);
                }
                out.push('(');
                stack.push((c, 0));
            } else {
                out.push(')');
            }
        }
    }

    /// Canonical shape string of the whole forest (ids abstracted away) — used for distinctness
    /// counting: chains sorted, each tree as nested parentheses.  Large forests are summarised.
    pub fn shape(&self) -> String {
        let rem = self.n.iter().filter(|m| !m.live).count();
        if self.n.len() > 300 {
            let maxw = self.n.iter().map(|m| m.children.len()).max().unwrap_or(0);
            return format!("big:{}n/{}chains/w{}|r{}", self.n.len(), self.chains.len(), maxw, rem);
        }
        let mut cs: Vec<String> = self
            .chains
            .iter()
            .map(|ch| {
                let mut s = String::new();
                for &x in ch {
                    self.paren(x, &[], &mut s);
                }
                s
            })
            .collect();
        cs.sort();
        format!("{}|r{}", cs.join("/"), rem)
    }

    /// Shape of the tree (whole chain) containing x with x marked — for distinctness of (state, arg).
    pub fn shape_marked(&self, marks: &[usize]) -> String {
        if self.n.len() > 300 {
            // large forest: local context of the marked nodes only
            let mut s = format!("big:{}", self.n.len() / 1000);
            for &m in marks {
                if m < self.n.len() && self.n[m].live {
                    let sib = self.siblings(m).len();
                    s.push_str(&format!("|d{}k{}s{}", self.depth(m).min(9), self.n[m].children.len().min(9), sib.min(9)));
                }
            }
            return s;
        }
        let mut cs: Vec<String> = Vec::new();
        for ch in &self.chains {
            let mut s = String::new();
            for &x in ch {
                self.paren(x, marks, &mut s);
            }
            if s.bytes().any(|b| b.is_ascii_lowercase()) {
                cs.push(s);
            }
        }
        cs.sort();
        cs.join("/")
    }

    /// internal sanity of the model itself (used in harness self-tests)
    pub fn self_check(&self) {
        let mut seen = vec![0u32; self.n.len()];
        for ch in &self.chains {
            assert!(!ch.is_empty());
            for &x in ch {
                assert!(self.n[x].live && self.n[x].parent.is_none());
                seen[x] += 1;
            }
        }
        for (s, m) in self.n.iter().enumerate() {
            if m.live {
                for &c in &m.children {
                    assert!(self.n[c].live && self.n[c].parent == Some(s));
                    seen[c] += 1;
                }
            } else {
                assert!(m.children.is_empty() && m.parent.is_none());
            }
        }
        for (s, m) in self.n.iter().enumerate() {
            assert_eq!(seen[s], if m.live { 1 } else { 0 }, "slot {s}");
        }
    }
}
