//! Operation IR shared by every engine (proptest strategies, exhaustive enumeration, fuzz-byte
//! decoder, replay files).  A history is a `Vec<Op>`; node arguments are *selectors* that are
//! resolved against the reference model at execution time, so every history is executable on every
//! state (an op whose selector cannot be resolved is skipped and counted).

use serde::{Deserialize, Serialize};

#[derive(Clone, Copy, Debug, PartialEq, Eq, Hash, Serialize, Deserialize, PartialOrd, Ord)]
pub enum Kind {
    Append,
    Prepend,
    After,
    Before,
}

impl Kind {
    pub const ALL: [Kind; 4] = [Kind::Append, Kind::Prepend, Kind::After, Kind::Before];
    pub fn name(self) -> &'static str {
        match self {
            Kind::Append => "append",
            Kind::Prepend => "prepend",
            Kind::After => "insert_after",
            Kind::Before => "insert_before",
        }
    }
}

/// Relation of the *second* argument to the first one (resolved on the model).
#[derive(Clone, Copy, Debug, PartialEq, Eq, Hash, Serialize, Deserialize, PartialOrd, Ord)]
pub enum Rel {
    Same,
    Parent,
    Ancestor,
    FirstChild,
    LastChild,
    Child,
    Descendant,
    Prev,
    Next,
    Sibling,
    OtherTree,
    ChainMate,
    /// the topmost ancestor (root of the tree the other argument is in)
    Root,
}

impl Rel {
    pub const ALL: [Rel; 13] = [
        Rel::Same,
        Rel::Parent,
        Rel::Ancestor,
        Rel::FirstChild,
        Rel::LastChild,
        Rel::Child,
        Rel::Descendant,
        Rel::Prev,
        Rel::Next,
        Rel::Sibling,
        Rel::OtherTree,
        Rel::ChainMate,
        Rel::Root,
    ];
}

/// Node selector.  Indices are mapped monotonically (`i * len >> 16`) so that shrinking towards 0
/// moves towards the first candidate.
#[derive(Clone, Copy, Debug, PartialEq, Eq, Hash, Serialize, Deserialize)]
pub enum Sel {
    /// Absolute slot (0-based); the id used is the *current* id of that slot (live or
    /// removed-not-recycled).  Used by the enumerators and by the shrinker.
    Slot(u32),
    /// like `Slot`, but for a removed-not-recycled slot the node is named by the handle
    /// `arena.get_node_id(&arena.as_slice()[slot])` (the id carrying the slot's *current* stamp)
    /// instead of the id it was created with
    SlotAlt(u32),
    /// k-th live node in slot order.
    Live(u16),
    /// k-th removed-and-not-recycled slot; falls back to `Live` when there is none.
    Removed(u16),
    /// A node in relation `Rel` to the other argument of the call; falls back to `Live(k)`.
    Rel(Rel, u16),
}

#[derive(Clone, Debug, PartialEq, Eq, Hash, Serialize, Deserialize)]
pub enum Op {
    /// `arena.new_node(v)`
    New { v: u32 },
    /// `parent.append_value(v, arena)`
    AppendValue { parent: Sel, v: u32 },
    /// `target.{checked_,}{append,prepend,insert_after,insert_before}(node, arena)`
    Insert { kind: Kind, checked: bool, target: Sel, node: Sel },
    Detach { x: Sel },
    Remove { x: Sel },
    RemoveSubtree { x: Sel },
    /// Payload write; `via`: 0 get_mut+replace, 1 IndexMut+replace, 2 get_mut in place, 3 iter_mut in place
    Set { x: Sel, v: u32, via: u8 },
    /// `for n in arena.iter_mut() { if !removed { val += d } }`
    IterMutAdd { d: u32 },
    /// remove + re-create one slot `cycles` times (free list drained first so that one slot cycles)
    Churn { x: Sel, cycles: u32 },
    /// churn slot `x` until it has been recycled exactly `limit - left` times (brings a slot to the
    /// brink of a generation-counter width: limit 127 / 255 / 32767 / 65535)
    ChurnTo { x: Sel, limit: u32, left: u8 },
    /// Deep checks on clones: all/sampled argument pairs, traversals, lookups (what exactly is
    /// decided by the run configuration; `seed` feeds the sampled choices).
    Probe { seed: u64 },
    /// add `n` nodes quickly below / beside `under` (light per-node checks, one full check at the
    /// end): shape 0 wide (n children), 1 deep (a chain of n), 2 top-level chain, 3 bushy, 4 comb (a spine whose
    /// every node has a following leaf sibling), 5 deep chain ending in a small branching tail, 6 wide
    /// with one later-allocated node inserted in the middle
    Grow { under: Sel, n: u32, shape: u8 },
    Clear,
    Reserve { k: u32 },
    /// Serde round trip (only meaningful in the `deser` build; no-op elsewhere).
    Roundtrip,
}

impl Op {
    pub fn kind_name(&self) -> &'static str {
        match self {
            Op::New { .. } => "new_node",
            Op::AppendValue { .. } => "append_value",
            Op::Insert { kind, checked, .. } => match (kind, checked) {
                (Kind::Append, true) => "checked_append",
                (Kind::Append, false) => "append",
                (Kind::Prepend, true) => "checked_prepend",
                (Kind::Prepend, false) => "prepend",
                (Kind::After, true) => "checked_insert_after",
                (Kind::After, false) => "insert_after",
                (Kind::Before, true) => "checked_insert_before",
                (Kind::Before, false) => "insert_before",
            },
            Op::Detach { .. } => "detach",
            Op::Remove { .. } => "remove",
            Op::RemoveSubtree { .. } => "remove_subtree",
            Op::Set { .. } => "set",
            Op::IterMutAdd { .. } => "iter_mut_add",
            Op::Churn { .. } => "churn",
            Op::ChurnTo { .. } => "churn_to",
            Op::Probe { .. } => "probe",
            Op::Grow { .. } => "grow",
            Op::Clear => "clear",
            Op::Reserve { .. } => "reserve",
            Op::Roundtrip => "roundtrip",
        }
    }
}

pub fn splitmix(mut x: u64) -> u64 {
    x = x.wrapping_add(0x9E37_79B9_7F4A_7C15);
    let mut z = x;
    z = (z ^ (z >> 30)).wrapping_mul(0xBF58_476D_1CE4_E5B9);
    z = (z ^ (z >> 27)).wrapping_mul(0x94D0_49BB_1331_11EB);
    z ^ (z >> 31)
}

/// monotone index map
pub fn pick(i: u16, len: usize) -> usize {
    debug_assert!(len > 0);
    ((i as usize) * len) >> 16
}
