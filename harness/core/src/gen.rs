//! Generators over the op IR: proptest strategies (random engine) and a byte decoder (libFuzzer),
//! both driven by a per-property `Profile`.

use crate::ir::{Kind, Op, Rel, Sel};
use proptest::prelude::*;

#[derive(Clone, Debug)]
pub struct DeepCfg {
    pub traversals: bool,
    pub dei: bool,
    pub lookups: bool,
    pub drain: bool,
    pub pairs: bool,
    pub unary: bool,
    pub max_cand: usize,
    pub dei_exh_bits: u32,
    pub dei_sampled: u32,
    /// run the deep checks once more at the end of every history
    pub at_end: bool,
}

impl DeepCfg {
    pub const fn none() -> Self {
        DeepCfg { traversals: false, dei: false, lookups: false, drain: false, pairs: false, unary: false, max_cand: 10, dei_exh_bits: 8, dei_sampled: 16, at_end: false }
    }
}

#[derive(Clone, Debug)]
pub struct Profile {
    pub name: &'static str,
    // op weights
    pub w_new: u32,
    pub w_append_value: u32,
    pub w_insert: u32,
    pub w_detach: u32,
    pub w_remove: u32,
    pub w_remove_subtree: u32,
    pub w_set: u32,
    pub w_itermut: u32,
    pub w_churn: u32,
    pub w_probe: u32,
    pub w_clear: u32,
    pub w_reserve: u32,
    pub w_roundtrip: u32,
    pub w_grow: u32,
    /// number of Grow shapes in use (shape 7 = nodes created through the tree! macro; only in builds that have it)
    pub grow_shapes: u8,
    /// bring a slot to the brink of a generation-counter width
    pub w_churn_to: u32,
    /// grow size classes: (weight, lo, hi)
    pub grow: &'static [(u32, u32, u32)],
    // selector weights
    pub s_live: u32,
    pub s_removed: u32,
    pub s_rel: u32,
    /// churn cycle classes: (weight, lo, hi)
    pub churn: &'static [(u32, u32, u32)],
    pub min_ops: usize,
    pub max_ops: usize,
    pub max_live: usize,
    pub deep: DeepCfg,
}

/// a ladder of sizes: small, past 16, past 64 / 128, past 256, past 1024
const GROW_STD: &[(u32, u32, u32)] = &[(20, 2, 10), (8, 17, 40), (6, 60, 135), (4, 250, 400), (1, 1030, 1100)];
/// C13: arenas whose capacity exceeds 4096
/// C17: depths beyond 4096 as well
const GROW_C17: &[(u32, u32, u32)] = &[(20, 2, 10), (8, 17, 40), (6, 60, 135), (3, 250, 400), (1, 1030, 1100), (1, 4100, 4300)];
const GROW_C13: &[(u32, u32, u32)] = &[(20, 2, 10), (6, 17, 135), (2, 250, 400), (1, 4100, 5200)];
/// reaches slot indices beyond u16
pub const GROW_XL: &[(u32, u32, u32)] = &[(2, 2, 10), (1, 250, 400), (3, 66_000, 70_000)];
const CHURN_SMALL: &[(u32, u32, u32)] = &[(1, 1, 6)];
const CHURN_C17: &[(u32, u32, u32)] = &[(8, 1, 6), (4, 100, 300), (1, 32_766, 32_770)];
const CHURN_C16: &[(u32, u32, u32)] = &[(10, 1, 6), (1, 32_766, 32_770)];
const CHURN_C06: &[(u32, u32, u32)] = &[(6, 1, 6), (3, 100, 300), (3, 32_760, 32_790), (1, 65_530, 65_560), (1, 70_000, 70_000)];

impl Profile {
    pub fn base(name: &'static str) -> Self {
        Profile {
            name,
            w_new: 14,
            w_append_value: 10,
            w_insert: 40,
            w_detach: 5,
            w_remove: 8,
            w_remove_subtree: 4,
            w_set: 2,
            w_itermut: 1,
            w_churn: 0,
            w_probe: 3,
            w_clear: 0,
            w_reserve: 0,
            w_roundtrip: 0,
            w_grow: 2,
            grow_shapes: 8,
            w_churn_to: 0,
            grow: GROW_STD,
            s_live: 50,
            s_removed: 8,
            s_rel: 42,
            churn: CHURN_SMALL,
            min_ops: 1,
            max_ops: 60,
            max_live: 48,
            deep: DeepCfg::none(),
        }
    }

    /// per-property profiles (DESIGN §4.1 / §7)
    pub fn for_prop(prop: &str) -> Self {
        let mut p = Profile::base("structure");
        match prop {
            "C01" => {
                p.name = "C01";
                p.w_churn_to = 1;
                p.w_churn = 1;
                p.deep.pairs = true;
                p.deep.unary = true;
                p.deep.max_cand = 8;
                p.deep.at_end = true;
            }
            "C02" => {
                p.name = "C02";
                p.w_churn_to = 1;
                p.deep.dei = true;
                p.deep.dei_exh_bits = 6;
                p.deep.dei_sampled = 4;
                p.w_insert = 50;
                p.s_rel = 60;
                p.deep.pairs = true;
                p.deep.traversals = true;
                p.deep.max_cand = 10;
                p.deep.at_end = true;
            }
            "C03" => {
                p.name = "C03";
                p.w_churn_to = 1;
                p.w_insert = 50;
                p.w_detach = 8;
                p.deep.pairs = true;
                p.deep.unary = true;
                p.deep.max_cand = 10;
                p.deep.at_end = true;
            }
            "C04" => {
                p.name = "C04";
                p.w_churn_to = 1;
                p.w_remove = 14;
                p.w_remove_subtree = 9;
                p.deep.unary = true;
                p.deep.at_end = true;
            }
            "C05" => {
                p.name = "C05";
                p.w_churn_to = 1;
                p.w_insert = 45;
                p.s_removed = 14;
                p.deep.pairs = true;
                p.deep.unary = true;
                p.deep.max_cand = 12;
                p.deep.at_end = true;
            }
            "C06" => {
                p.name = "C06";
                p.w_grow = 6; // long runs of trailing removed slots (storage that is given back) need big subtrees
                p.w_churn_to = 3;
                p.w_churn = 10;
                p.w_remove = 14;
                p.w_remove_subtree = 6;
                p.w_new = 20;
                p.w_insert = 20;
                p.w_clear = 1;
                p.churn = CHURN_C06;
                p.max_ops = 40;
                p.w_probe = 0;
            }
            "C07" => {
                p.name = "C07";
                p.w_churn_to = 1;
                p.w_new = 22;
                p.w_append_value = 14;
                p.w_remove = 16;
                p.w_remove_subtree = 10;
                p.w_insert = 25;
                p.w_churn = 2;
                p.w_clear = 1;
                p.w_probe = 6;
                p.deep.drain = true;
                p.deep.at_end = true;
            }
            "C08" => {
                p.name = "C08";
                p.w_grow = 4;
                p.w_churn_to = 1;
                p.w_set = 10;
                p.w_itermut = 3;
                p.w_remove = 12;
                p.w_remove_subtree = 8;
                p.w_new = 18;
                p.w_clear = 1;
                p.w_churn = 1;
            }
            "C09" => {
                p.name = "C09";
                p.w_probe = 6;
                p.deep.traversals = true;
                p.deep.at_end = true;
            }
            "C10" => {
                p.name = "C10";
                p.w_probe = 6;
                p.w_detach = 8;
                p.deep.dei = true;
                p.deep.at_end = true;
                p.deep.dei_exh_bits = 10;
            }
            "C11" => {
                p.name = "C11";
                p.w_churn_to = 1;
                p.w_remove = 12;
                p.w_remove_subtree = 6;
                p.w_new = 18;
                p.w_probe = 6;
                p.w_clear = 1;
                p.deep.lookups = true;
                p.deep.at_end = true;
            }
            "C12" => {
                p.name = "C12";
                p.w_churn_to = 1;
                p.w_remove = 16;
                p.w_remove_subtree = 14;
                p.w_insert = 35;
                p.s_removed = 30;
                p.s_live = 40;
                p.s_rel = 30;
                p.w_probe = 5;
                p.deep.pairs = true;
                p.deep.unary = true;
                p.deep.traversals = true;
                p.deep.max_cand = 10;
                p.deep.at_end = true;
            }
            "C13" => {
                p.name = "C13";
                p.grow = GROW_C13;
                p.w_grow = 3;
                p.w_clear = 2;
                p.w_reserve = 2;
                p.w_remove = 12;
                p.w_remove_subtree = 6;
                p.w_churn = 1;
            }
            "C16" => {
                p.name = "C16";
                p.w_churn_to = 1;
                p.w_roundtrip = 8;
                p.churn = CHURN_C16;
                p.w_remove = 14;
                p.w_remove_subtree = 8;
                p.w_new = 20;
                p.w_churn = 1;
                p.w_clear = 1;
                p.w_probe = 0;
            }
            "C17" => {
                p.name = "C17";
                p.grow_shapes = 7; // the battery must be identical in builds without the macros feature
                p.grow = GROW_C17;
                p.w_grow = 3;
                p.churn = CHURN_C17;
                p.w_churn = 2;
                p.w_set = 3;
                p.w_clear = 1;
                p.w_reserve = 1;
                p.w_churn = 1;
                p.w_probe = 2;
                p.s_removed = 12;
                p.deep = DeepCfg { traversals: true, dei: true, lookups: true, drain: true, pairs: true, unary: false, max_cand: 4, dei_exh_bits: 6, dei_sampled: 4, at_end: true };
            }
            // fuzzing profile: every oracle available, but deep checks only where the input asks for them
            "FUZZ" => {
                p.name = "FUZZ";
                p.deep = DeepCfg { traversals: true, dei: true, lookups: true, drain: true, pairs: true, unary: true, max_cand: 4, dei_exh_bits: 6, dei_sampled: 2, at_end: false };
            }
            // general-purpose profile: everything on (fuzz target, C16/C17 batteries)
            "ALL" => {
                p.name = "ALL";
                p.w_set = 3;
                p.w_clear = 1;
                p.w_reserve = 1;
                p.w_churn = 1;
                p.w_probe = 4;
                p.deep = DeepCfg { traversals: true, dei: true, lookups: true, drain: true, pairs: true, unary: true, max_cand: 6, dei_exh_bits: 8, dei_sampled: 8, at_end: true };
            }
            _ => {}
        }
        p
    }
}

fn rel_strategy() -> impl Strategy<Value = Rel> {
    (0usize..Rel::ALL.len()).prop_map(|i| Rel::ALL[i])
}

pub fn sel_strategy(p: &Profile) -> BoxedStrategy<Sel> {
    prop_oneof![
        p.s_live.max(1) => any::<u16>().prop_map(Sel::Live),
        p.s_removed.max(1) => any::<u16>().prop_map(Sel::Removed),
        p.s_rel.max(1) => (rel_strategy(), any::<u16>()).prop_map(|(r, k)| Sel::Rel(r, k)),
    ]
    .boxed()
}

fn plain_sel(p: &Profile) -> BoxedStrategy<Sel> {
    // unary ops have no "other argument": Live only
    let _ = p;
    any::<u16>().prop_map(Sel::Live).boxed()
}

pub fn op_strategy(p: &Profile) -> BoxedStrategy<Op> {
    let sel = sel_strategy(p);
    let usel = plain_sel(p);
    let kind = (0usize..4).prop_map(|i| Kind::ALL[i]);
    let churn: Vec<(u32, BoxedStrategy<u32>)> = p.churn.iter().map(|&(w, lo, hi)| (w, (lo..=hi).boxed())).collect();
    let churn_cycles = proptest::strategy::Union::new_weighted(churn);
    let mut alts: Vec<(u32, BoxedStrategy<Op>)> = Vec::new();
    let mut add = |w: u32, s: BoxedStrategy<Op>| {
        if w > 0 {
            alts.push((w, s));
        }
    };
    add(p.w_new, (0u32..100).prop_map(|v| Op::New { v }).boxed());
    add(
        p.w_append_value,
        (prop_oneof![9 => any::<u16>().prop_map(Sel::Live), (p.s_removed / 4).max(1) => any::<u16>().prop_map(Sel::Removed)], 0u32..100)
            .prop_map(|(parent, v)| Op::AppendValue { parent, v })
            .boxed(),
    );
    add(
        p.w_insert,
        (kind, any::<bool>(), prop_oneof![8 => any::<u16>().prop_map(Sel::Live), (p.s_removed / 4).max(1) => any::<u16>().prop_map(Sel::Removed)], sel.clone())
            .prop_map(|(kind, checked, target, node)| Op::Insert { kind, checked, target, node })
            .boxed(),
    );
    add(p.w_detach, usel.clone().prop_map(|x| Op::Detach { x }).boxed());
    add(p.w_remove, usel.clone().prop_map(|x| Op::Remove { x }).boxed());
    add(p.w_remove_subtree, usel.clone().prop_map(|x| Op::RemoveSubtree { x }).boxed());
    add(p.w_set, (usel.clone(), 0u32..100, 0u8..4).prop_map(|(x, v, via)| Op::Set { x, v, via }).boxed());
    add(p.w_itermut, (1u32..10).prop_map(|d| Op::IterMutAdd { d }).boxed());
    add(p.w_churn, (usel.clone(), churn_cycles).prop_map(|(x, cycles)| Op::Churn { x, cycles }).boxed());
    add(p.w_probe, any::<u64>().prop_map(|seed| Op::Probe { seed }).boxed());
    add(p.w_clear, Just(Op::Clear).boxed());
    add(p.w_reserve, prop_oneof![8 => 0u32..64, 1 => 1000u32..5000, 1 => 60_000u32..70_000].prop_map(|k| Op::Reserve { k }).boxed());
    add(p.w_roundtrip, Just(Op::Roundtrip).boxed());
    {
        let g: Vec<(u32, BoxedStrategy<u32>)> = p.grow.iter().map(|&(w, lo, hi)| (w, (lo..=hi).boxed())).collect();
        add(p.w_grow, (usel.clone(), proptest::strategy::Union::new_weighted(g), 0u8..p.grow_shapes).prop_map(|(under, n, shape)| Op::Grow { under, n, shape }).boxed());
        add(
            p.w_churn_to,
            (usel.clone(), prop_oneof![6 => Just(32_767u32), 2 => Just(127u32), 2 => Just(255u32), 1 => Just(257u32), 1 => Just(65_535u32)], 0u8..3).prop_map(|(x, limit, left)| Op::ChurnTo { x, limit, left }).boxed(),
        );
    }
    proptest::strategy::Union::new_weighted(alts).boxed()
}

pub fn history_strategy(p: &Profile) -> BoxedStrategy<Vec<Op>> {
    proptest::collection::vec(op_strategy(p), p.min_ops..=p.max_ops).boxed()
}

// ------------------------------------------------------------------------------------------------
// byte decoder (fuzzing): the same IR from an arbitrary byte string

struct Cur<'a> {
    b: &'a [u8],
    i: usize,
}

impl<'a> Cur<'a> {
    fn u8(&mut self) -> Option<u8> {
        let v = *self.b.get(self.i)?;
        self.i += 1;
        Some(v)
    }
    fn u16(&mut self) -> Option<u16> {
        // one byte spread over the u16 range: keeps inputs short, still reaches every candidate of
        // lists up to 256 entries
        Some((self.u8()? as u16) << 8 | 0x80)
    }
}

fn dec_sel(c: &mut Cur, allow_rel: bool) -> Option<Sel> {
    let t = c.u8()?;
    Some(match t % 8 {
        0..=2 => Sel::Live(c.u16()?),
        3 => Sel::Removed(c.u16()?),
        _ if allow_rel => Sel::Rel(Rel::ALL[(t as usize / 8) % Rel::ALL.len()], c.u16()?),
        _ => Sel::Live(c.u16()?),
    })
}

/// Decode a byte string into a history (never fails; stops at the end of input).
pub fn decode_bytes(bytes: &[u8], max_ops: usize) -> Vec<Op> {
    let mut c = Cur { b: bytes, i: 0 };
    let mut ops = Vec::new();
    while ops.len() < max_ops {
        let Some(tag) = c.u8() else { break };
        let op = (|| -> Option<Op> {
            Some(match tag % 32 {
                0..=3 => Op::New { v: c.u8()? as u32 },
                4..=6 => Op::AppendValue { parent: dec_sel(&mut c, false)?, v: c.u8()? as u32 },
                7..=20 => {
                    let k = c.u8()?;
                    Op::Insert { kind: Kind::ALL[(k % 4) as usize], checked: k & 4 != 0, target: dec_sel(&mut c, false)?, node: dec_sel(&mut c, true)? }
                }
                21 => Op::Detach { x: Sel::Live(c.u16()?) },
                22 | 23 => Op::Remove { x: Sel::Live(c.u16()?) },
                24 | 25 => Op::RemoveSubtree { x: Sel::Live(c.u16()?) },
                26 => Op::Set { x: Sel::Live(c.u16()?), v: c.u8()? as u32, via: c.u8()? },
                27 => Op::IterMutAdd { d: c.u8()? as u32 },
                28 => Op::Churn { x: Sel::Live(c.u16()?), cycles: (c.u8()? % 8) as u32 + 1 },
                29 | 30 => Op::Probe { seed: c.u8()? as u64 },
                _ => match c.u8()? % 5 {
                    4 => Op::Grow { under: Sel::Live(c.u16()?), n: (c.u8()? as u32 % 40) + 1, shape: c.u8()? },
                    0 => Op::Clear,
                    1 => Op::Reserve { k: c.u8()? as u32 },
                    _ => Op::Roundtrip,
                },
            })
        })();
        match op {
            Some(op) => ops.push(op),
            None => break,
        }
    }
    ops
}
