//! The system under test next to its reference model, the observer and the per-step oracles.
//!
//! Everything here reads the arena through the public API only.  Library calls that may panic are
//! wrapped in `catch_unwind`; library iterators are only ever consumed through `take(cap + 1)`.

use crate::ir::{pick, Kind, Op, Rel, Sel};
use crate::model::{FreeState, Links, Model, LINK_NAMES};
use crate::payload::Payload;
use indextree::{Arena, NodeId};
use std::collections::HashSet;
use std::panic::{catch_unwind, AssertUnwindSafe};

#[derive(Clone, Debug)]
pub struct Failure {
    /// properties this observation violates
    pub props: Vec<&'static str>,
    /// stable class of the failure: `<entry point>/<argument relation>/<failure kind>`
    pub sig: String,
    pub msg: String,
}

impl Failure {
    pub fn new(props: &[&'static str], sig: impl Into<String>, msg: impl Into<String>) -> Self {
        Failure { props: props.to_vec(), sig: sig.into(), msg: msg.into() }
    }
    pub fn hits(&self, prop: &str) -> bool {
        self.props.iter().any(|p| *p == prop)
    }
}

#[derive(Clone, Debug, Default)]
pub struct StepOut {
    /// the concrete call, e.g. `n2.checked_insert_after(n0)`
    pub desc: String,
    /// `ok`, `err:Removed`, `panic`, `skip`, `id=n3` …
    pub outcome: String,
    pub failures: Vec<Failure>,
    /// (property, distinctness key) for which this step is a non-trivial evaluation
    pub nt: Vec<(&'static str, u64)>,
    /// generator statistics: `<op>/<relation>`
    pub class: String,
    pub skipped: bool,
    /// the op with every selector resolved to `Sel::Slot` (None when skipped)
    pub concrete: Option<Op>,
    /// further observable text of the call (e.g. `Display` of the error) — part of build digests
    pub detail: String,
}

#[derive(Clone, Copy, Debug)]
pub struct Arg {
    pub slot: usize,
    pub id: NodeId,
    pub live: bool,
}

#[derive(Clone, Debug)]
pub struct StepCfg {
    /// clone the arena before mutators (atomicity, no-op and append_value-equivalence oracles)
    pub snapshot: bool,
    /// maximum number of live nodes; allocation ops beyond it are skipped
    pub max_live: usize,
    /// maximum number of slots (for the exhaustive enumerators)
    pub max_slots: usize,
    /// allow `append_value` on a removed parent (C12 probes)
    pub append_value_on_removed: bool,
    /// signatures excluded by construction (open known findings): such calls are skipped
    pub exclude: Vec<String>,
    /// the property under check: failures that do not hit it do not end the case (the model is
    /// re-synchronised from the arena and the search goes on).  None: every failure ends the case.
    pub target: Option<String>,
}

impl Default for StepCfg {
    fn default() -> Self {
        StepCfg { snapshot: true, max_live: 48, max_slots: usize::MAX, append_value_on_removed: true, exclude: Vec::new(), target: None }
    }
}

/// Every id ever issued since creation / the last clear (C06).
#[derive(Clone, Debug, Default)]
pub struct IdLedger {
    pub issued: HashSet<NodeId>,
    /// per slot: ids in issue order (all but the last are removed; the last is removed iff !live)
    pub per_slot: Vec<Vec<NodeId>>,
}

pub struct World<P: Payload> {
    pub arena: Arena<P>,
    pub m: Model,
    pub ctx: P::Ctx,
    /// destructor accounting is exact only on the main line (clones share the ledger)
    pub track_drops: bool,
    pub drop_seen: usize,
    pub ids: Option<Box<IdLedger>>,
    pub excluded_calls: u64,
}

pub fn fnv(s: &str) -> u64 {
    let mut h: u64 = 0xcbf29ce484222325;
    for b in s.bytes() {
        h ^= b as u64;
        h = h.wrapping_mul(0x100000001b3);
    }
    h
}

pub fn nid(id: NodeId) -> String {
    // slot number is what `Display` prints (1-based); we print 0-based slots as `n<k>`
    format!("n{}", usize::from(id) - 1)
}

/// `n<slot>@<generation>` — the generation is only visible through `Debug`
pub fn idg(id: NodeId) -> String {
    let d = format!("{:?}", id);
    let gen = d.rsplit("NodeStamp(").next().and_then(|t| t.split(')').next()).unwrap_or("?").to_string();
    format!("n{}@{}", usize::from(id) - 1, gen)
}

fn ln(l: Option<NodeId>) -> String {
    match l {
        None => "-".into(),
        Some(i) => idg(i),
    }
}

#[derive(Clone, Debug)]
pub struct Row {
    pub removed: bool,
    pub links: Links,
}

pub enum Outcome {
    Ok,
    Err(String),
    Panic(String),
}

pub fn panic_msg(e: Box<dyn std::any::Any + Send>) -> String {
    if let Some(s) = e.downcast_ref::<&str>() {
        s.to_string()
    } else if let Some(s) = e.downcast_ref::<String>() {
        s.clone()
    } else {
        "<non-string panic>".into()
    }
}

impl<P: Payload> Clone for World<P> {
    /// Clone for probes: shares the drop ledger, does no destructor accounting, has no id ledger.
    fn clone(&self) -> Self {
        World {
            arena: self.arena.clone(),
            m: self.m.clone(),
            ctx: self.ctx.clone(),
            track_drops: false,
            drop_seen: 0,
            ids: None,
            excluded_calls: 0,
        }
    }
}

impl<P: Payload> World<P> {
    pub fn new() -> Self {
        let ctx = P::Ctx::default();
        World {
            arena: Arena::new(),
            m: Model::new(),
            ctx,
            track_drops: P::TRACKS_DROPS,
            drop_seen: 0,
            ids: Some(Box::new(IdLedger::default())),
            excluded_calls: 0,
        }
    }

    /// payload constructor: destructor-tracked only on the main line
    pub fn mk(&self, serial: u64, v: u32) -> P {
        if self.track_drops {
            P::make(&self.ctx, serial, v)
        } else {
            P::make_untracked(&self.ctx, serial, v)
        }
    }

    // ---------------------------------------------------------------- selectors

    pub fn arg(&self, slot: usize) -> Arg {
        Arg { slot, id: self.m.n[slot].id, live: self.m.n[slot].live }
    }

    fn resolve_plain(&self, sel: Sel) -> Option<Arg> {
        match sel {
            Sel::Slot(s) => {
                let s = s as usize;
                if s < self.m.n.len() {
                    Some(self.arg(s))
                } else {
                    None
                }
            }
            Sel::SlotAlt(s) => {
                let s = s as usize;
                if s < self.m.n.len() {
                    let mut a = self.arg(s);
                    if !a.live {
                        // another valid way to name the removed node: ask the arena for the id of that slot
                        let alt = catch_unwind(AssertUnwindSafe(|| self.arena.as_slice().get(s).and_then(|n| self.arena.get_node_id(n))));
                        if let Ok(Some(id)) = alt {
                            if usize::from(id) == s + 1 {
                                a.id = id;
                            }
                        }
                    }
                    Some(a)
                } else {
                    None
                }
            }
            Sel::Live(k) | Sel::Rel(_, k) => {
                let live = self.m.live_slots();
                if live.is_empty() {
                    None
                } else {
                    Some(self.arg(live[pick(k, live.len())]))
                }
            }
            Sel::Removed(k) => {
                let rem = self.m.removed_slots();
                if rem.is_empty() {
                    self.resolve_plain(Sel::Live(k))
                } else {
                    Some(self.arg(rem[pick(k, rem.len())]))
                }
            }
        }
    }

    /// Resolve `sel`; `Rel` selectors are relative to `other` (which must be live to have relatives).
    pub fn resolve(&self, sel: Sel, other: Option<Arg>) -> Option<Arg> {
        if let (Sel::Rel(rel, k), Some(o)) = (sel, other) {
            if o.live {
                let c = self.related(o.slot, rel);
                if !c.is_empty() {
                    return Some(self.arg(c[pick(k, c.len())]));
                }
            }
        }
        self.resolve_plain(sel)
    }

    /// candidates in relation `rel` to live slot `o`
    pub fn related(&self, o: usize, rel: Rel) -> Vec<usize> {
        let m = &self.m;
        match rel {
            Rel::Same => vec![o],
            Rel::Parent => m.n[o].parent.into_iter().collect(),
            Rel::Ancestor => {
                let mut v = Vec::new();
                let mut cur = m.n[o].parent;
                while let Some(p) = cur {
                    v.push(p);
                    cur = m.n[p].parent;
                }
                // prefer proper ancestors above the parent when there are any
                if v.len() > 1 {
                    v.remove(0);
                }
                v
            }
            Rel::FirstChild => m.n[o].children.first().copied().into_iter().collect(),
            Rel::LastChild => m.n[o].children.last().copied().into_iter().collect(),
            Rel::Child => m.n[o].children.to_vec(),
            Rel::Descendant => {
                let mut v = m.preorder(o);
                v.remove(0);
                let deep: Vec<usize> = v.iter().copied().filter(|&d| m.n[d].parent != Some(o)).collect();
                if deep.is_empty() {
                    v
                } else {
                    deep
                }
            }
            Rel::Prev => {
                let l = m.siblings(o);
                let i = l.iter().position(|&c| c == o).unwrap();
                if i > 0 {
                    vec![l[i - 1]]
                } else {
                    vec![]
                }
            }
            Rel::Next => {
                let l = m.siblings(o);
                let i = l.iter().position(|&c| c == o).unwrap();
                if i + 1 < l.len() {
                    vec![l[i + 1]]
                } else {
                    vec![]
                }
            }
            Rel::Sibling => m.siblings(o).iter().copied().filter(|&c| c != o).collect(),
            Rel::OtherTree => {
                let l = m.chains.iter().find(|c| c.contains(&m.root_of(o))).unwrap();
                m.live_slots().into_iter().filter(|&s| !l.contains(&m.root_of(s))).collect()
            }
            Rel::ChainMate => {
                let r = m.root_of(o);
                m.siblings(r).iter().copied().filter(|&c| c != r && c != o).collect()
            }
            Rel::Root => {
                let r = m.root_of(o);
                if r == o {
                    vec![]
                } else {
                    vec![r]
                }
            }
        }
    }

    /// relation class of `n` (second argument) with respect to `t` (first argument)
    pub fn relation(&self, t: Arg, n: Arg) -> &'static str {
        let m = &self.m;
        match (t.live, n.live) {
            (false, false) => return if t.slot == n.slot { "same-removed" } else { "removed-both" },
            (false, true) => return "removed-target",
            (true, false) => return "removed-node",
            _ => {}
        }
        let (t, n) = (t.slot, n.slot);
        if t == n {
            return "same";
        }
        if m.n[t].parent == Some(n) {
            return "parent";
        }
        if m.is_proper_ancestor(n, t) {
            return "ancestor";
        }
        if m.n[n].parent == Some(t) {
            let ch = &m.n[t].children;
            return if ch.len() == 1 {
                "only-child"
            } else if ch[0] == n {
                "first-child"
            } else if *ch.last().unwrap() == n {
                "last-child"
            } else {
                "mid-child"
            };
        }
        if m.is_proper_ancestor(t, n) {
            return "descendant";
        }
        let top = m.n[t].parent.is_none();
        let l = m.siblings(t);
        if let Some(j) = l.iter().position(|&c| c == n) {
            let i = l.iter().position(|&c| c == t).unwrap();
            return match (top, j + 1 == i, j == i + 1) {
                (false, true, _) => "prev",
                (false, _, true) => "next",
                (false, _, _) => "sibling",
                (true, true, _) => "top-prev",
                (true, _, true) => "top-next",
                (true, _, _) => "top-sibling",
            };
        }
        let (rt, rn) = (m.root_of(t), m.root_of(n));
        if rt == rn {
            "same-tree"
        } else if m.siblings(rt).contains(&rn) {
            "same-chain"
        } else {
            "other-tree"
        }
    }

    // ---------------------------------------------------------------- observation

    /// Read every slot through `Arena::get` + the `Node` accessors.  Never calls a library iterator.
    pub fn observe(&self) -> Result<Vec<Row>, Failure> {
        let mut rows = Vec::with_capacity(self.m.n.len());
        for (s, mn) in self.m.n.iter().enumerate() {
            let node = match self.arena.get(mn.id) {
                Some(n) => n,
                None => {
                    return Err(Failure::new(
                        &["C08", "C11"],
                        "observe/get-none",
                        format!("arena.get({:?}) is None for slot {s} which was issued by this arena", mn.id),
                    ))
                }
            };
            rows.push(Row {
                removed: node.is_removed(),
                links: [node.parent(), node.previous_sibling(), node.next_sibling(), node.first_child(), node.last_child()],
            });
        }
        Ok(rows)
    }

    /// C01 (and the structural half of C02) on the observed table.
    pub fn check_wf(&self, rows: &[Row], opname: &str, out: &mut Vec<Failure>) {
        let m = &self.m;
        let nslots = rows.len();
        let live: Vec<usize> = (0..nslots).filter(|&s| m.n[s].live).collect();
        let slot_of = |id: NodeId| usize::from(id) - 1;
        // (e) every link of a live node is current and names a live node
        let mut bad = false;
        'e: for &s in &live {
            for (k, l) in rows[s].links.iter().enumerate() {
                if let Some(l) = *l {
                    let t = slot_of(l);
                    if t >= nslots {
                        out.push(Failure::new(&["C01"], format!("{opname}/wf/link-out-of-range"), format!("slot {s} {} = {:?} is out of range", LINK_NAMES[k], l)));
                        return;
                    }
                    if m.n[t].id != l {
                        out.push(Failure::new(
                            &["C01", "C12"],
                            format!("{opname}/wf/stale-link"),
                            format!("live slot {s}: {} = {:?} but the current id of that slot is {:?} (stale generation)", LINK_NAMES[k], l, m.n[t].id),
                        ));
                        bad = true;
                        break 'e;
                    }
                    if !m.n[t].live || rows[t].removed {
                        out.push(Failure::new(
                            &["C01", "C12"],
                            format!("{opname}/wf/link-to-removed"),
                            format!("live slot {s}: {} = {:?} names a removed node", LINK_NAMES[k], l),
                        ));
                        bad = true;
                        break 'e;
                    }
                }
            }
        }
        let lk = |s: usize, k: usize| rows[s].links[k].map(slot_of);
        for &x in &live {
            if bad {
                break;
            }
            // (a) next/prev symmetry
            if let Some(y) = lk(x, 2) {
                if lk(y, 1) != Some(x) {
                    out.push(Failure::new(&["C01"], format!("{opname}/wf/next-prev-asym"), format!("slot {x}.next = {y} but slot {y}.prev = {:?}", lk(y, 1))));
                    bad = true;
                    break;
                }
                // (b) same parent
                if lk(y, 0) != lk(x, 0) {
                    out.push(Failure::new(&["C01"], format!("{opname}/wf/sibling-parent"), format!("adjacent siblings {x},{y} report parents {:?},{:?}", lk(x, 0), lk(y, 0))));
                    bad = true;
                    break;
                }
                if y == x {
                    out.push(Failure::new(&["C01", "C02"], format!("{opname}/wf/self-sibling"), format!("slot {x} is its own next sibling")));
                    bad = true;
                    break;
                }
            }
            if let Some(y) = lk(x, 1) {
                if lk(y, 2) != Some(x) {
                    out.push(Failure::new(&["C01"], format!("{opname}/wf/prev-next-asym"), format!("slot {x}.prev = {y} but slot {y}.next = {:?}", lk(y, 2))));
                    bad = true;
                    break;
                }
            }
            // (d)
            if lk(x, 3).is_some() != lk(x, 4).is_some() {
                out.push(Failure::new(&["C01"], format!("{opname}/wf/first-last"), format!("slot {x}: first_child = {:?}, last_child = {:?}", lk(x, 3), lk(x, 4))));
                bad = true;
                break;
            }
            if lk(x, 0) == Some(x) {
                out.push(Failure::new(&["C01", "C02"], format!("{opname}/wf/self-parent"), format!("slot {x} is its own parent")));
                bad = true;
                break;
            }
        }
        // (c) children of p = exactly the chain first..last   (O(n): count, then walk)
        let mut cnt = vec![0usize; nslots];
        if !bad {
            for &c in &live {
                if let Some(p) = lk(c, 0) {
                    cnt[p] += 1;
                }
            }
        }
        for &p in &live {
            if bad {
                break;
            }
            let mut steps = 0usize;
            let mut last = None;
            let mut cur = lk(p, 3);
            let mut foreign = None;
            while let Some(c) = cur {
                steps += 1;
                if lk(c, 0) != Some(p) {
                    foreign = Some(c);
                    break;
                }
                last = Some(c);
                if steps > cnt[p] {
                    break;
                }
                cur = lk(c, 2);
            }
            let ok = foreign.is_none()
                && steps == cnt[p]
                && lk(p, 4) == last
                && lk(p, 3).map_or(true, |f| lk(f, 1).is_none())
                && last.map_or(true, |l| lk(l, 2).is_none());
            if !ok {
                let props: &[&'static str] = if steps > cnt[p] { &["C01", "C02"] } else { &["C01"] };
                out.push(Failure::new(
                    props,
                    format!("{opname}/wf/child-chain"),
                    format!(
                        "parent slot {p}: {} live nodes name it as parent; the chain from first_child {:?} has {}{} nodes{}, ends at {:?}; last_child = {:?}",
                        cnt[p],
                        lk(p, 3),
                        if steps > cnt[p] { "more than " } else { "" },
                        steps.min(cnt[p] + 1),
                        foreign.map_or(String::new(), |f| format!(" and reaches slot {f} which names another parent")),
                        last,
                        lk(p, 4)
                    ),
                ));
                bad = true;
                break;
            }
        }
        // C02: parent walks and sibling walks terminate (O(n): three-colour walk over each link kind)
        let _ = bad;
        for (dir, what) in [(0usize, "parent-cycle"), (2usize, "sibling-cycle"), (1usize, "sibling-cycle")] {
            let mut state = vec![0u8; nslots]; // 0 unvisited, 1 on the current walk, 2 known to terminate
            for &x in &live {
                if state[x] != 0 {
                    continue;
                }
                let mut path = Vec::new();
                let mut cur = Some(x);
                let mut cyc = false;
                while let Some(y) = cur {
                    if state[y] == 1 {
                        cyc = true;
                        break;
                    }
                    if state[y] == 2 {
                        break;
                    }
                    state[y] = 1;
                    path.push(y);
                    cur = lk(y, dir);
                }
                if cyc {
                    let msg = if dir == 0 {
                        format!("following parent links from slot {x} never reaches a parentless node (cycle)")
                    } else {
                        format!("following {} links from slot {x} does not end (cycle)", LINK_NAMES[dir])
                    };
                    out.push(Failure::new(&["C02", "C01"], format!("{opname}/wf/{what}"), msg));
                    return;
                }
                for y in path {
                    state[y] = 2;
                }
            }
        }
    }

    /// Full after-step check.  `ctx` = properties to blame when the forest differs from the model.
    pub fn check_state(&mut self, opname: &str, ctx: &[&'static str]) -> Vec<Failure> {
        let mut out = Vec::new();
        if self.arena.count() != self.m.n.len() {
            out.push(Failure::new(
                &["C07"],
                format!("{opname}/count"),
                format!("arena.count() = {} but {} slots have been handed out", self.arena.count(), self.m.n.len()),
            ));
            return out;
        }
        let rows = match self.observe() {
            Ok(r) => r,
            Err(f) => {
                out.push(f);
                return out;
            }
        };
        // removed flags
        for (s, r) in rows.iter().enumerate() {
            let mn = &self.m.n[s];
            if r.removed == mn.live {
                let mut props: Vec<&'static str> = ctx.to_vec();
                props.push(if mn.live { "C08" } else { "C12" });
                props.push("C06");
                out.push(Failure { props, sig: format!("{opname}/removed-flag"), msg: format!("slot {s}: Node::is_removed() = {} but the node is {}", r.removed, if mn.live { "live" } else { "removed" }) });
                return out;
            }
            let idr = catch_unwind(AssertUnwindSafe(|| mn.id.is_removed(&self.arena)));
            if idr.as_ref().ok() != Some(&!mn.live) {
                out.push(Failure::new(&["C06"], format!("{opname}/id-is-removed"), format!("slot {s}: {:?}.is_removed(arena) = {:?}, node is {}", mn.id, idr.ok(), if mn.live { "live" } else { "removed" })));
                return out;
            }
        }
        self.check_wf(&rows, opname, &mut out);
        let wf_failed = !out.is_empty();
        // model comparison: effect + frame
        let exp = self.m.expected_links();
        for (s, r) in rows.iter().enumerate() {
            if r.links != exp[s] {
                let k = (0..5).find(|&k| r.links[k] != exp[s][k]).unwrap();
                if self.m.n[s].live {
                    out.push(Failure {
                        props: ctx.to_vec(),
                        sig: format!("{opname}/links-mismatch"),
                        msg: format!("slot {s}: {} is {} but must be {} (all links: got {:?} want {:?})", LINK_NAMES[k], ln(r.links[k]), ln(exp[s][k]), r.links.map(ln), exp[s].map(ln)),
                    });
                    return out;
                } else if !out.iter().any(|f| f.sig.ends_with("removed-keeps-links")) {
                    out.push(Failure::new(
                        &["C12"],
                        format!("{opname}/removed-keeps-links"),
                        format!("removed slot {s} still reports {} = {}", LINK_NAMES[k], ln(r.links[k])),
                    ));
                }
            }
        }
        if !out.is_empty() {
            return out;
        }
        if wf_failed {
            return out;
        }
        // payloads
        for (s, mn) in self.m.n.iter().enumerate() {
            if !mn.live {
                continue;
            }
            let got = catch_unwind(AssertUnwindSafe(|| {
                let a = self.arena.get(mn.id).map(|n| (n.get().serial(), n.get().val()));
                let b = {
                    let n = &self.arena[mn.id];
                    (n.get().serial(), n.get().val())
                };
                (a, b)
            }));
            match got {
                Ok((Some(a), b)) if a == (mn.serial, mn.val) && b == a => {}
                other => {
                    out.push(Failure::new(
                        &["C08"],
                        format!("{opname}/payload"),
                        format!("slot {s}: payload via get()/Index = {:?}, expected (serial {}, val {})", other.ok(), mn.serial, mn.val),
                    ));
                    return out;
                }
            }
        }
        out
    }

    /// exact destructor accounting for the step that just ran (main line only)
    fn check_drops(&mut self, opname: &str, mut expected: Vec<u64>, out: &mut Vec<Failure>) {
        if !self.track_drops {
            return;
        }
        let mut got = P::drop_log_from(&self.ctx, self.drop_seen);
        self.drop_seen += got.len();
        got.sort();
        expected.sort();
        if got != expected {
            out.push(Failure::new(
                &["C08"],
                format!("{opname}/drops"),
                format!("payload serials dropped by this call: {:?}, expected exactly {:?}", got, expected),
            ));
        }
    }

    /// Rebuild the reference model from the arena (used after a failure that does not concern the
    /// property under check): liveness from the removed flags, structure from the links — only if
    /// the links are well-formed — and payload expectations from the stored values.  Returns false
    /// if the arena cannot serve as a new ground truth.
    pub fn resync(&mut self) -> bool {
        // transactional: the model is only replaced if the arena can serve as the new ground truth
        let saved = self.m.clone();
        let ok = self.resync_inner();
        if !ok {
            self.m = saved;
        }
        ok
    }

    fn resync_inner(&mut self) -> bool {
        let c = self.arena.count();
        if c < self.m.n.len() && self.m.n[c..].iter().all(|m| !m.live) {
            // the arena dropped trailing removed slots (a C07 matter): follow it, keep the id ledger
            for s in (c..self.m.n.len()).rev() {
                self.m.set_free(s, FreeState::NotFree);
            }
            self.m.n.truncate(c);
        }
        if self.arena.count() != self.m.n.len() {
            return false;
        }
        let Ok(rows) = self.observe() else { return false };
        for (s, r) in rows.iter().enumerate() {
            self.m.n[s].live = !r.removed;
        }
        let mut out = Vec::new();
        self.check_wf(&rows, "resync", &mut out);
        if !out.is_empty() {
            return false;
        }
        let slot_of = |id: NodeId| usize::from(id) - 1;
        let n = rows.len();
        self.m.chains.clear();
        for s in 0..n {
            self.m.n[s].children.clear();
            self.m.n[s].parent = None;
        }
        for s in 0..n {
            if !self.m.n[s].live {
                if self.m.n[s].free == FreeState::NotFree {
                    self.m.set_free(s, FreeState::Free);
                }
                continue;
            }
            self.m.set_free(s, FreeState::NotFree);
            self.m.n[s].parent = rows[s].links[0].map(slot_of);
            let mut kids = Vec::new();
            let mut cur = rows[s].links[3].map(slot_of);
            while let Some(c) = cur {
                kids.push(c);
                if kids.len() > n {
                    return false;
                }
                cur = rows[c].links[2].map(slot_of);
            }
            self.m.n[s].children = kids.into();
        }
        for s in 0..n {
            if self.m.n[s].live && self.m.n[s].parent.is_none() && rows[s].links[1].is_none() {
                let mut ch = vec![s];
                let mut cur = rows[s].links[2].map(slot_of);
                while let Some(c) = cur {
                    ch.push(c);
                    if ch.len() > n {
                        return false;
                    }
                    cur = rows[c].links[2].map(slot_of);
                }
                self.m.chains.push(ch);
            }
        }
        // payloads
        for s in 0..n {
            if !self.m.n[s].live {
                continue;
            }
            let id = self.m.n[s].id;
            let got = catch_unwind(AssertUnwindSafe(|| self.arena.get(id).map(|n| (n.get().serial(), n.get().val()))));
            match got {
                Ok(Some((serial, val))) => {
                    self.m.n[s].serial = serial;
                    self.m.n[s].val = val;
                }
                _ => return false,
            }
        }
        self.track_drops = false;
        // is the rebuilt model self-consistent?
        let exp = self.m.expected_links();
        for s in 0..n {
            if self.m.n[s].live && rows[s].links != exp[s] {
                return false;
            }
        }
        true
    }

    // ---------------------------------------------------------------- keys for distinctness

    fn key(&self, parts: &[&str], marks: &[usize]) -> u64 {
        let mut s = parts.join("|");
        s.push('|');
        s.push_str(&self.m.shape_marked(marks));
        fnv(&s)
    }

    // ---------------------------------------------------------------- the step function

    /// Resolve every selector of `op` against the current model state.
    pub fn concretize(&self, op: &Op) -> Option<Op> {
        let slot = |a: Arg| Sel::Slot(a.slot as u32);
        // already concrete (enumerators, probes, replays): keep as is, SlotAlt included
        let concrete = |s: &Sel| matches!(s, Sel::Slot(_) | Sel::SlotAlt(_));
        if let Op::Insert { target, node, .. } = op {
            if concrete(target) && concrete(node) {
                self.resolve(*target, None)?;
                self.resolve(*node, None)?;
                return Some(op.clone());
            }
        }
        if let Op::AppendValue { parent, .. } = op {
            if concrete(parent) {
                self.resolve(*parent, None)?;
                return Some(op.clone());
            }
        }
        Some(match op {
            Op::AppendValue { parent, v } => Op::AppendValue { parent: slot(self.resolve(*parent, None)?), v: *v },
            Op::Insert { kind, checked, target, node } => {
                // a relative *target* is resolved against the node, a relative node against the target
                let (t, n) = match (target, node) {
                    (_, Sel::Rel(..)) => {
                        let t = self.resolve(*target, None);
                        (t, self.resolve(*node, t))
                    }
                    (Sel::Rel(..), _) => {
                        let n = self.resolve(*node, None);
                        (self.resolve(*target, n), n)
                    }
                    _ => (self.resolve(*target, None), self.resolve(*node, None)),
                };
                Op::Insert { kind: *kind, checked: *checked, target: slot(t?), node: slot(n?) }
            }
            Op::Detach { x } => Op::Detach { x: slot(self.resolve(*x, None)?) },
            Op::Remove { x } => Op::Remove { x: slot(self.resolve(*x, None)?) },
            Op::RemoveSubtree { x } => Op::RemoveSubtree { x: slot(self.resolve(*x, None)?) },
            Op::Set { x, v, via } => Op::Set { x: slot(self.resolve(*x, None)?), v: *v, via: *via },
            Op::Churn { x, cycles } => Op::Churn { x: slot(self.resolve(*x, None)?), cycles: *cycles },
            Op::ChurnTo { x, limit, left } => Op::ChurnTo { x: slot(self.resolve(*x, None)?), limit: *limit, left: *left },
            Op::Grow { under, n, shape } => Op::Grow { under: slot(self.resolve(*under, None)?), n: *n, shape: *shape },
            other => other.clone(),
        })
    }

    pub fn step(&mut self, op: &Op, cfg: &StepCfg) -> StepOut {
        let Some(c) = self.concretize(op) else { return skip(op.kind_name()) };
        let mut o = self.exec(&c, cfg);
        if !o.skipped {
            o.concrete = Some(c);
        }
        o
    }

    fn exec(&mut self, op: &Op, cfg: &StepCfg) -> StepOut {
        let a = |s: &Sel| self.resolve(*s, None);
        match op {
            Op::New { v } => self.do_new(None, *v, cfg),
            Op::AppendValue { parent, v } => match a(parent) {
                Some(p) if p.live || cfg.append_value_on_removed => self.do_new(Some(p), *v, cfg),
                _ => skip("append_value"),
            },
            Op::Insert { kind, checked, target, node } => match (a(target), a(node)) {
                (Some(t), Some(n)) => self.do_insert(*kind, *checked, t, n, cfg),
                _ => skip(op.kind_name()),
            },
            Op::Detach { x } => match a(x) {
                Some(a) if a.live => self.do_detach(a),
                _ => skip("detach"),
            },
            Op::Remove { x } => match a(x) {
                Some(a) if a.live => self.do_remove(a, false, cfg),
                _ => skip("remove"),
            },
            Op::RemoveSubtree { x } => match a(x) {
                Some(a) if a.live => self.do_remove(a, true, cfg),
                _ => skip("remove_subtree"),
            },
            Op::Set { x, v, via } => match a(x) {
                Some(a) if a.live => self.do_set(a, *v, *via),
                _ => skip("set"),
            },
            Op::IterMutAdd { d } => self.do_iter_mut_add(*d),
            Op::Clear => self.do_clear(),
            Op::Reserve { k } => self.do_reserve(*k as usize),
            Op::Churn { x, cycles } => match a(x) {
                Some(a) if a.live => self.do_churn(a, *cycles, cfg),
                _ => skip("churn"),
            },
            Op::ChurnTo { x, limit, left } => match a(x) {
                Some(a) if a.live => {
                    // a lone root cycles in place; otherwise do_churn cycles a fresh leaf starting at generation 0
                    let lone = self.m.n[a.slot].children.is_empty() && self.m.n[a.slot].parent.is_none() && self.m.siblings(a.slot).len() == 1;
                    let have = if lone { self.m.n[a.slot].recycles } else { 0 };
                    let want = limit.saturating_sub(*left as u32);
                    if want > have && want - have <= 70_000 {
                        let mut o = self.do_churn(a, want - have, cfg);
                        o.class = format!("churn_to/{limit}-{left}");
                        o.desc = format!("churn_to({}, recycles = {limit} - {left})", nid(a.id));
                        o
                    } else {
                        skip("churn_to")
                    }
                }
                _ => skip("churn_to"),
            },
            Op::Grow { under, n, shape } => match a(under) {
                Some(a) if a.live => self.do_grow(a, *n, *shape, cfg),
                _ => skip("grow"),
            },
            Op::Probe { .. } | Op::Roundtrip => skip(op.kind_name()), // handled by the engine
        }
    }

    fn record_issue(&mut self, id: NodeId, slot: usize, opname: &str, out: &mut Vec<Failure>) {
        if let Some(l) = self.ids.as_mut() {
            if !l.issued.insert(id) {
                out.push(Failure::new(&["C06"], format!("{opname}/id-reissued"), format!("id {:?} was handed out before (slot {slot})", id)));
            }
            if l.per_slot.len() <= slot {
                l.per_slot.resize(slot + 1, Vec::new());
            }
            // the slot is live again: every earlier generation must still report removed
            let hist = &l.per_slot[slot];
            let nh = hist.len();
            let mut idxs: Vec<usize> = (0..nh.min(3)).collect();
            idxs.extend(nh.saturating_sub(3)..nh);
            if nh > 6 {
                idxs.push((crate::ir::splitmix(nh as u64) % nh as u64) as usize);
            }
            for i in idxs {
                let old = hist[i];
                let r = catch_unwind(AssertUnwindSafe(|| old.is_removed(&self.arena)));
                if r.ok() != Some(true) {
                    out.push(Failure::new(
                        &["C06"],
                        format!("{opname}/old-id-live-again"),
                        format!("id {} was removed earlier; after its slot was recycled as {} it reports is_removed() == false", idg(old), idg(id)),
                    ));
                    break;
                }
            }
            l.per_slot[slot].push(id);
        }
    }

    /// `new_node` (parent None) or `append_value`
    fn do_new(&mut self, parent: Option<Arg>, v: u32, cfg: &StepCfg) -> StepOut {
        let opname = if parent.is_some() { "append_value" } else { "new_node" };
        let mut o = StepOut::default();
        let free = self.m.free_set();
        let maybe = self.m.maybe_retired();
        let will_grow = free.is_empty() && maybe.is_empty();
        if self.m.live_count() >= cfg.max_live || (will_grow && self.m.n.len() >= cfg.max_slots) {
            return skip(opname);
        }
        let rel = match parent {
            None => "-",
            Some(p) if p.live => "live-parent",
            Some(_) => "removed-parent",
        };
        o.class = format!("{opname}/{rel}");
        o.desc = match parent {
            None => format!("new_node({v})"),
            Some(p) => format!("{}.append_value({v})", nid(p.id)),
        };
        let sig_rel = format!("{opname}/{rel}");
        if cfg.exclude.iter().any(|e| e.starts_with(&sig_rel)) {
            self.excluded_calls += 1;
            return skip(opname);
        }
        let pre = if cfg.snapshot { Some(self.arena.clone()) } else { None };
        let pre_rows = self.observe().ok();
        let count0 = self.arena.count();
        let serial = self.m.next_serial;
        let payload = self.mk(serial, v);
        let arena = &mut self.arena;
        let r = catch_unwind(AssertUnwindSafe(|| match parent {
            None => arena.new_node(payload),
            Some(p) => p.id.append_value(payload, arena),
        }));
        // ---- removed parent: must be refused with a panic and no change (C12)
        if let Some(p) = parent {
            if !p.live {
                match r {
                    Ok(id) => {
                        o.outcome = format!("id={}", idg(id));
                        o.failures.push(Failure::new(
                            &["C12"],
                            format!("{opname}/{rel}/no-panic-on-impossible"),
                            format!("append_value on removed node {:?} succeeded and returned {:?}", p.id, id),
                        ));
                        // what do the live nodes report now?  (C01 / C02)
                        let slot = usize::from(id) - 1;
                        if slot <= self.m.n.len() && self.arena.count() == self.m.n.len().max(slot + 1) {
                            self.m.alloc(slot, id, v);
                            if let Ok(rows) = self.observe() {
                                let mut extra = Vec::new();
                                self.check_wf(&rows, opname, &mut extra);
                                for mut f in extra {
                                    f.sig = format!("{opname}/{rel}/{}", f.sig.rsplit('/').next().unwrap_or(""));
                                    o.failures.push(f);
                                }
                            }
                        }
                    }
                    Err(e) => {
                        o.outcome = "panic".into();
                        let _ = e;
                        if let Some(pre) = &pre {
                            if *pre != self.arena {
                                o.failures.push(Failure::new(
                                    &["C12"],
                                    format!("{opname}/{rel}/changed-after-panic"),
                                    format!("append_value on removed node {:?} panicked but changed the arena (count {} -> {})", p.id, count0, self.arena.count()),
                                ));
                            }
                        }
                        // the payload handed to the failed call is gone
                        let mut dummy = Vec::new();
                        self.check_drops(opname, vec![serial], &mut dummy);
                        self.m.next_serial += 1;
                    }
                }
                o.nt.push(("C12", self.key(&[opname, rel, &o.outcome], &[])));
                return o;
            }
        }
        let id = match r {
            Ok(id) => id,
            Err(e) => {
                o.outcome = "panic".into();
                o.failures.push(Failure::new(&["C05", "C07"], format!("{opname}/{rel}/panic-on-possible"), format!("{} panicked: {}", o.desc, panic_msg(e))));
                return o;
            }
        };
        o.outcome = format!("id={}", idg(id));
        let slot = usize::from(id) - 1;
        // ---- C07: which slot, count
        let count1 = self.arena.count();
        let mut f7 = None;
        if slot < self.m.n.len() && self.m.n[slot].live {
            f7 = Some(format!("returned slot {slot} which holds a live node"));
        } else if !free.is_empty() {
            if !(free.contains(&slot) || maybe.contains(&slot)) {
                f7 = Some(format!("free slots {:?} available but slot {slot} was returned", free));
            } else if count1 != count0 {
                f7 = Some(format!("a removed slot was available but count() changed {count0} -> {count1}"));
            }
        } else if maybe.contains(&slot) {
            if count1 != count0 {
                f7 = Some(format!("recycled slot {slot} but count() changed {count0} -> {count1}"));
            }
        } else if slot != count0 || count1 != count0 + 1 {
            f7 = Some(format!("no removed slot available: expected new slot {count0} and count {count0}+1, got slot {slot}, count {count1}"));
        } else {
            // arena grew although `maybe` slots existed: those are retired now
            for s in &maybe {
                self.m.set_free(*s, FreeState::Retired);
            }
        }
        if slot < self.m.n.len() && self.m.n[slot].free == FreeState::Retired {
            f7 = Some(format!("slot {slot} had been skipped as exhausted and was handed out again"));
        }
        if let Some(msg) = f7 {
            o.failures.push(Failure::new(&["C07"], format!("{opname}/{rel}/slot-choice"), msg));
            return o;
        }
        self.record_issue(id, slot, opname, &mut o.failures);
        if !o.failures.is_empty() {
            return o;
        }
        let recycled = slot < self.m.n.len();
        let bystanders = self.m.live_count();
        self.m.alloc(slot, id, v);
        if let Some(p) = parent {
            self.m.insert(Kind::Append, p.slot, slot);
        }
        // ---- bystander frame (C07): every other slot's row unchanged
        if let (Some(pre_rows), Ok(rows)) = (pre_rows, self.observe()) {
            for (s, r) in pre_rows.iter().enumerate() {
                if s == slot || Some(s) == parent.map(|p| p.slot) {
                    continue;
                }
                // the former last child of the parent legitimately gets a next sibling
                if parent.is_some() && r.links[0] == parent.map(|p| p.id) {
                    continue;
                }
                if rows[s].removed != r.removed || rows[s].links != r.links {
                    o.failures.push(Failure::new(
                        &["C07"],
                        format!("{opname}/{rel}/bystander-changed"),
                        format!("slot {s} changed from {:?} to {:?} although it is not involved", r, rows[s]),
                    ));
                    return o;
                }
            }
        }
        let ctx: &[&'static str] = if parent.is_some() { &["C03", "C07"] } else { &["C07", "C12"] };
        o.failures = self.check_state(opname, ctx);
        self.check_drops(opname, vec![], &mut o.failures);
        // ---- append_value(v) == new_node(v) + append   (C03)
        if let (Some(p), Some(mut pre), true) = (parent, pre, o.failures.is_empty()) {
            let pl = P::make_untracked(&self.ctx, serial, v);
            let eq = catch_unwind(AssertUnwindSafe(|| {
                let id2 = pre.new_node(pl);
                p.id.append(id2, &mut pre);
                (id2, pre)
            }));
            match eq {
                Ok((id2, pre)) => {
                    if id2 != id || pre != self.arena {
                        o.failures.push(Failure::new(
                            &["C03"],
                            format!("{opname}/{rel}/not-equivalent"),
                            format!("append_value returned {:?}; new_node+append returned {:?}; arenas equal: {}", id, id2, pre == self.arena),
                        ));
                    }
                    drop(pre);
                }
                Err(_) => {} // append() panicking is judged where append is called
            }
        }
        // ---- non-triviality
        if free.len() >= 2 {
            o.nt.push(("C07", fnv(&format!("{opname}|free>=2|{}|{}", free.len(), self.m.shape()))));
        }
        if recycled && bystanders >= 1 {
            o.nt.push(("C08", self.key(&[opname, "recycle-with-bystanders"], &[slot])));
            o.nt.push(("C12", self.key(&[opname, "recycled"], &[slot])));
            o.nt.push(("C06", self.key(&[opname, "recycled", &self.m.n[slot].recycles.min(3).to_string()], &[])));
        }
        if parent.is_some() && self.m.live_count() >= 3 {
            o.nt.push(("C03", self.key(&[opname], &[parent.unwrap().slot])));
            o.nt.push(("C01", self.key(&[opname], &[parent.unwrap().slot])));
        }
        o
    }

    pub fn impossible(&self, t: Arg, n: Arg) -> Vec<&'static str> {
        let mut why = Vec::new();
        if t.slot == n.slot {
            why.push("Self");
        }
        if !t.live || !n.live {
            why.push("Removed");
        }
        if t.live && n.live && t.slot != n.slot && self.m.is_proper_ancestor(n.slot, t.slot) {
            why.push("Ancestor");
        }
        why
    }

    fn call_insert(&mut self, kind: Kind, checked: bool, t: NodeId, n: NodeId) -> Outcome {
        let arena = &mut self.arena;
        let r = catch_unwind(AssertUnwindSafe(|| {
            if checked {
                match kind {
                    Kind::Append => t.checked_append(n, arena),
                    Kind::Prepend => t.checked_prepend(n, arena),
                    Kind::After => t.checked_insert_after(n, arena),
                    Kind::Before => t.checked_insert_before(n, arena),
                }
                .map_err(|e| format!("{:?}|{}", e, e))
            } else {
                match kind {
                    Kind::Append => t.append(n, arena),
                    Kind::Prepend => t.prepend(n, arena),
                    Kind::After => t.insert_after(n, arena),
                    Kind::Before => t.insert_before(n, arena),
                }
                Ok(())
            }
        }));
        match r {
            Ok(Ok(())) => Outcome::Ok,
            Ok(Err(e)) => Outcome::Err(e),
            Err(p) => Outcome::Panic(panic_msg(p)),
        }
    }

    fn do_insert(&mut self, kind: Kind, checked: bool, t: Arg, n: Arg, cfg: &StepCfg) -> StepOut {
        let opname = Op::Insert { kind, checked, target: Sel::Slot(0), node: Sel::Slot(0) }.kind_name();
        let mut o = StepOut::default();
        let rel = self.relation(t, n);
        o.class = format!("{opname}/{rel}");
        o.desc = format!("{}.{}({})", nid(t.id), opname, nid(n.id));
        let sigp = format!("{opname}/{rel}/");
        if cfg.exclude.iter().any(|e| e.starts_with(&sigp)) {
            self.excluded_calls += 1;
            let mut s = skip(opname);
            s.class = format!("{opname}/{rel}/excluded");
            return s;
        }
        let why = self.impossible(t, n);
        let imp = !why.is_empty();
        let removed_involved = !t.live || !n.live;
        // is this a re-insertion in place?
        let in_place = !imp && {
            let m = &self.m;
            match kind {
                Kind::Append => m.n[n.slot].parent == Some(t.slot) && m.n[t.slot].children.last() == Some(&n.slot),
                Kind::Prepend => m.n[n.slot].parent == Some(t.slot) && m.n[t.slot].children.first() == Some(&n.slot),
                Kind::After => {
                    let l = m.siblings(t.slot);
                    let i = l.iter().position(|&c| c == t.slot).unwrap();
                    l.get(i + 1) == Some(&n.slot)
                }
                Kind::Before => {
                    let l = m.siblings(t.slot);
                    let i = l.iter().position(|&c| c == t.slot).unwrap();
                    i > 0 && l[i - 1] == n.slot
                }
            }
        };
        let key_marks = [t.slot, n.slot];
        let pre = if cfg.snapshot { Some(self.arena.clone()) } else { None };
        let outcome = self.call_insert(kind, checked, t.id, n.id);
        let mut blame: Vec<&'static str> = vec!["C05"];
        if removed_involved {
            blame.push("C12");
        }
        let unchanged = |w: &Self| pre.as_ref().map_or(true, |p| *p == w.arena);
        match (&outcome, imp) {
            (Outcome::Ok, true) => {
                o.outcome = "ok".into();
                if why.contains(&"Ancestor") || why.contains(&"Self") {
                    blame.push("C02");
                }
                let kindw = if checked { "ok-on-impossible" } else { "no-panic-on-impossible" };
                o.failures.push(Failure { props: blame.clone(), sig: format!("{sigp}{kindw}"), msg: format!("{} succeeded although the request is impossible ({:?})", o.desc, why) });
                // let the structural oracles have a look at the damage as well (C01/C02)
                if !removed_involved {
                    if let Ok(rows) = self.observe() {
                        let mut extra = Vec::new();
                        self.check_wf(&rows, opname, &mut extra);
                        for mut f in extra {
                            f.sig = format!("{sigp}{}", f.sig.rsplit('/').next().unwrap_or(""));
                            o.failures.push(f);
                        }
                    }
                }
            }
            (Outcome::Err(name), true) => {
                let (name, disp) = name.split_once('|').map(|(a, b)| (a.to_string(), b.to_string())).unwrap_or((name.clone(), String::new()));
                let name = &name;
                o.detail = disp;
                o.outcome = format!("err:{name}");
                if !checked {
                    unreachable!("unchecked forms have no error result");
                }
                // reason must apply
                let class = ["Self", "Removed", "Ancestor"].iter().find(|c| name.contains(**c));
                match class {
                    Some(c) if !why.contains(c) => {
                        o.failures.push(Failure { props: blame.clone(), sig: format!("{sigp}wrong-reason"), msg: format!("{} returned {name} but the applicable reasons are {:?}", o.desc, why) });
                    }
                    Some(_) => {
                        let words = ["Append", "Prepend", "InsertAfter", "InsertBefore"];
                        let mine = match kind {
                            Kind::Append => "Append",
                            Kind::Prepend => "Prepend",
                            Kind::After => "InsertAfter",
                            Kind::Before => "InsertBefore",
                        };
                        if let Some(w) = words.iter().find(|w| name.starts_with(**w)) {
                            if *w != mine {
                                o.failures.push(Failure { props: blame.clone(), sig: format!("{sigp}wrong-reason"), msg: format!("{} returned {name}, which describes a different operation", o.desc) });
                            }
                        }
                    }
                    None => {} // unknown variant name: counted, not judged
                }
                if !unchanged(self) {
                    o.failures.push(Failure { props: blame.clone(), sig: format!("{sigp}changed-after-err"), msg: format!("{} returned {name} but the arena differs from the snapshot taken before the call", o.desc) });
                }
            }
            (Outcome::Panic(msg), true) => {
                o.outcome = "panic".into();
                if checked {
                    o.failures.push(Failure { props: blame.clone(), sig: format!("{sigp}panic-in-checked"), msg: format!("{} panicked ({msg}) instead of returning an error for {:?}", o.desc, why) });
                }
                if !unchanged(self) {
                    o.failures.push(Failure { props: blame.clone(), sig: format!("{sigp}changed-after-panic"), msg: format!("{} panicked ({msg}) and left the arena changed", o.desc) });
                }
            }
            (Outcome::Err(name), false) => {
                let name = &name.split('|').next().unwrap_or("").to_string();
                o.outcome = format!("err:{name}");
                if in_place {
                    blame.push("C03");
                }
                o.failures.push(Failure { props: blame.clone(), sig: format!("{sigp}err-on-possible"), msg: format!("{} returned {name} although the request is possible (relation: {rel})", o.desc) });
            }
            (Outcome::Panic(msg), false) => {
                o.outcome = "panic".into();
                if in_place {
                    blame.push("C03");
                }
                o.failures.push(Failure { props: blame.clone(), sig: format!("{sigp}panic-on-possible"), msg: format!("{} panicked although the request is possible (relation: {rel}): {msg}", o.desc) });
            }
            (Outcome::Ok, false) => {
                o.outcome = "ok".into();
                self.m.insert(kind, t.slot, n.slot);
            }
        }
        if o.failures.is_empty() {
            let ctx: &[&'static str] = if imp {
                if removed_involved {
                    &["C05", "C12"]
                } else {
                    &["C05"]
                }
            } else {
                &["C03"]
            };
            o.failures = self.check_state(opname, ctx);
            for f in o.failures.iter_mut() {
                f.sig = format!("{sigp}{}", f.sig.splitn(2, '/').nth(1).unwrap_or(""));
            }
            if o.failures.is_empty() && in_place && !unchanged(self) {
                o.failures.push(Failure::new(&["C03"], format!("{sigp}in-place-not-noop"), format!("{}: node already is where it is inserted, but the arena changed", o.desc)));
            }
            self.check_drops(opname, vec![], &mut o.failures);
        }
        // ---- non-triviality
        let related = !matches!(rel, "other-tree");
        let oc = o.outcome.split(':').next().unwrap_or("").to_string();
        if related {
            o.nt.push(("C02", self.key(&[opname, rel, &oc], &key_marks)));
            o.nt.push(("C05", self.key(&[opname, rel, &oc], &key_marks)));
        }
        if removed_involved {
            o.nt.push(("C12", self.key(&[opname, rel, &oc], &key_marks)));
        }
        if !imp {
            let has_kids = !self.m.n[n.slot].children.is_empty();
            let same_list = matches!(rel, "prev" | "next" | "sibling" | "top-prev" | "top-next" | "top-sibling" | "first-child" | "last-child" | "mid-child" | "only-child");
            let top = rel.starts_with("top-") || rel == "same-chain";
            if has_kids || same_list || top {
                o.nt.push(("C03", self.key(&[opname, rel], &key_marks)));
            }
            if self.m.live_count() >= 3 {
                o.nt.push(("C01", self.key(&[opname, rel], &key_marks)));
            }
        } else {
            o.nt.push(("C01", self.key(&[opname, rel, "failed"], &key_marks)));
        }
        o
    }

    fn do_detach(&mut self, a: Arg) -> StepOut {
        let mut o = StepOut::default();
        let top = self.m.n[a.slot].parent.is_none();
        let sibs = self.m.siblings(a.slot).len();
        let rel = match (top, sibs > 1) {
            (true, true) => "top-chain-member",
            (true, false) => "lone-root",
            (false, true) => "child-with-siblings",
            (false, false) => "only-child",
        };
        o.class = format!("detach/{rel}");
        o.desc = format!("{}.detach()", nid(a.id));
        let key = self.key(&["detach", rel], &[a.slot]);
        let arena = &mut self.arena;
        let r = catch_unwind(AssertUnwindSafe(|| a.id.detach(arena)));
        match r {
            Ok(()) => {
                o.outcome = "ok".into();
                self.m.detach(a.slot);
                o.failures = self.check_state("detach", &["C03"]);
                for f in o.failures.iter_mut() {
                    f.sig = format!("detach/{rel}/{}", f.sig.splitn(2, '/').nth(1).unwrap_or(""));
                }
                self.check_drops("detach", vec![], &mut o.failures);
            }
            Err(e) => {
                o.outcome = "panic".into();
                o.failures.push(Failure::new(&["C05", "C03"], format!("detach/{rel}/panic-on-possible"), format!("{} panicked: {}", o.desc, panic_msg(e))));
            }
        }
        if !self.m.n[a.slot].children.is_empty() || sibs > 1 {
            o.nt.push(("C03", key));
        }
        if self.m.live_count() >= 3 {
            o.nt.push(("C01", key));
        }
        o
    }

    fn do_remove(&mut self, a: Arg, subtree: bool, cfg: &StepCfg) -> StepOut {
        let opname = if subtree { "remove_subtree" } else { "remove" };
        let mut o = StepOut::default();
        let m = &self.m;
        let top = m.n[a.slot].parent.is_none();
        let sibs = m.siblings(a.slot);
        let pos = sibs.iter().position(|&c| c == a.slot).unwrap();
        let kids = m.n[a.slot].children.len();
        let posname = if sibs.len() == 1 {
            "only"
        } else if pos == 0 {
            "first"
        } else if pos + 1 == sibs.len() {
            "last"
        } else {
            "middle"
        };
        let rel = format!("{}{}-{}", if top { "top-" } else { "" }, posname, if kids == 0 { "leaf" } else if kids == 1 { "1kid" } else { "kids" });
        o.class = format!("{opname}/{rel}");
        o.desc = format!("{}.{}()", nid(a.id), opname);
        if cfg.exclude.iter().any(|e| format!("{opname}/{rel}/").starts_with(e.as_str())) {
            self.excluded_calls += 1;
            return skip(opname);
        }
        let nontrivial = (kids >= 1 && sibs.len() > 1) || (top && sibs.len() > 1);
        let key = self.key(&[opname, &rel], &[a.slot]);
        let sub_len = if subtree { m.preorder(a.slot).len() } else { 1 };
        let arena = &mut self.arena;
        let r = catch_unwind(AssertUnwindSafe(|| if subtree { a.id.remove_subtree(arena) } else { a.id.remove(arena) }));
        match r {
            Ok(()) => {
                o.outcome = "ok".into();
                let gone: Vec<usize> = if subtree {
                    self.m.remove_subtree(a.slot)
                } else {
                    self.m.remove(a.slot);
                    vec![a.slot]
                };
                let serials: Vec<u64> = gone.iter().map(|&s| self.m.n[s].serial).collect();
                o.failures = self.check_state(opname, &["C04"]);
                for f in o.failures.iter_mut() {
                    f.sig = format!("{opname}/{rel}/{}", f.sig.splitn(2, '/').nth(1).unwrap_or(""));
                }
                self.check_drops(opname, serials, &mut o.failures);
            }
            Err(e) => {
                o.outcome = "panic".into();
                o.failures.push(Failure::new(&["C05", "C04"], format!("{opname}/{rel}/panic-on-possible"), format!("{} panicked: {}", o.desc, panic_msg(e))));
            }
        }
        if nontrivial {
            o.nt.push(("C04", key));
        }
        if self.m.live_count() >= 2 {
            o.nt.push(("C01", key));
        }
        if kids >= 1 || sibs_gt1(posname) || sub_len > 1 {
            o.nt.push(("C12", key));
        }
        if subtree && sub_len >= 2 {
            o.nt.push(("C07", fnv(&format!("{opname}|free-many|{}|{}", sub_len, self.m.shape()))));
        }
        o
    }

    fn do_set(&mut self, a: Arg, v: u32, via: u8) -> StepOut {
        let mut o = StepOut::default();
        let via = via % 4;
        o.class = format!("set/via{via}");
        o.desc = format!("set({}, {v}, via {via})", nid(a.id));
        let old_serial = self.m.n[a.slot].serial;
        let new_serial = self.m.next_serial;
        let replace = via < 2;
        let fresh = if replace { Some(self.mk(new_serial, v)) } else { None };
        let arena = &mut self.arena;
        let r = catch_unwind(AssertUnwindSafe(|| match via {
            0 => *arena.get_mut(a.id).expect("get_mut of a live id").get_mut() = fresh.unwrap(),
            1 => *arena[a.id].get_mut() = fresh.unwrap(),
            2 => arena.get_mut(a.id).expect("get_mut of a live id").get_mut().set_val(v),
            _ => arena.iter_mut().nth(a.slot).expect("slot in iter_mut").get_mut().set_val(v),
        }));
        match r {
            Ok(()) => {
                o.outcome = "ok".into();
                self.m.n[a.slot].val = v;
                let mut dropped = vec![];
                if replace {
                    self.m.n[a.slot].serial = new_serial;
                    self.m.next_serial += 1;
                    dropped.push(old_serial);
                }
                o.failures = self.check_state("set", &["C08"]);
                self.check_drops("set", dropped, &mut o.failures);
            }
            Err(e) => {
                o.outcome = "panic".into();
                o.failures.push(Failure::new(&["C08", "C11"], "set/panic", format!("{} panicked: {}", o.desc, panic_msg(e))));
            }
        }
        if self.m.live_count() >= 2 {
            o.nt.push(("C08", self.key(&["set", &via.to_string()], &[a.slot])));
        }
        o
    }

    fn do_iter_mut_add(&mut self, d: u32) -> StepOut {
        let mut o = StepOut::default();
        o.class = "iter_mut_add/-".into();
        o.desc = format!("iter_mut_add({d})");
        let arena = &mut self.arena;
        let r = catch_unwind(AssertUnwindSafe(|| {
            for n in arena.iter_mut() {
                if !n.is_removed() {
                    let v = n.get().val().wrapping_add(d);
                    n.get_mut().set_val(v);
                }
            }
        }));
        match r {
            Ok(()) => {
                o.outcome = "ok".into();
                for mn in self.m.n.iter_mut().filter(|m| m.live) {
                    mn.val = mn.val.wrapping_add(d);
                }
                o.failures = self.check_state("iter_mut_add", &["C08"]);
                self.check_drops("iter_mut_add", vec![], &mut o.failures);
            }
            Err(e) => {
                o.outcome = "panic".into();
                o.failures.push(Failure::new(&["C08"], "iter_mut_add/panic", format!("iter_mut write panicked: {}", panic_msg(e))));
            }
        }
        o
    }

    fn do_clear(&mut self) -> StepOut {
        let mut o = StepOut::default();
        o.class = "clear/-".into();
        o.desc = "clear()".into();
        let cap0 = self.arena.capacity();
        let serials: Vec<u64> = self.m.n.iter().filter(|m| m.live).map(|m| m.serial).collect();
        let had_free = !self.m.free_set().is_empty();
        self.arena.clear();
        self.m.clear();
        if let Some(l) = self.ids.as_mut() {
            l.issued.clear();
            l.per_slot.clear();
        }
        o.outcome = "ok".into();
        let fresh: Arena<P> = Arena::new();
        if self.arena != fresh || !self.arena.is_empty() || self.arena.count() != 0 {
            o.failures.push(Failure::new(&["C13"], "clear/not-fresh", "after clear() the arena is not equal to Arena::new()"));
        }
        if self.arena.capacity() < cap0 {
            o.failures.push(Failure::new(&["C13"], "clear/capacity", format!("clear() shrank the capacity {cap0} -> {}", self.arena.capacity())));
        }
        self.check_drops("clear", serials, &mut o.failures);
        if had_free {
            o.nt.push(("C13", self.key(&["clear", "with-free-list"], &[])));
            o.nt.push(("C07", self.key(&["clear", "with-free-list"], &[])));
        }
        o
    }

    fn do_reserve(&mut self, k: usize) -> StepOut {
        let mut o = StepOut::default();
        o.class = "reserve/-".into();
        o.desc = format!("reserve({k})");
        let pre = self.arena.clone();
        self.arena.reserve(k);
        o.outcome = "ok".into();
        if self.arena.capacity() < self.arena.count() + k {
            o.failures.push(Failure::new(&["C13"], "reserve/capacity", format!("capacity {} < count {} + {k}", self.arena.capacity(), self.arena.count())));
        }
        if self.arena != pre {
            o.failures.push(Failure::new(&["C13"], "reserve/changed", "reserve() changed the arena"));
        }
        o.nt.push(("C13", fnv(&format!("reserve|{}|{}", k.min(8), self.m.n.len().min(8)))));
        o
    }

    /// remove + re-create `cycles` times.  Light per-cycle checks, full check every 1024 cycles.
    fn do_churn(&mut self, a: Arg, cycles: u32, cfg: &StepCfg) -> StepOut {
        let mut o = StepOut::default();
        o.class = format!("churn/{}", if cycles >= 30000 { "boundary" } else if cycles >= 100 { "long" } else { "short" });
        o.desc = format!("churn({}, {cycles})", nid(a.id));
        // drain the free list so that exactly one slot cycles
        let mut guard = 0;
        while !(self.m.free_set().is_empty() && self.m.maybe_retired().is_empty()) {
            let s = self.do_new(None, 0, &StepCfg { snapshot: false, max_live: usize::MAX, ..cfg.clone() });
            if !s.failures.is_empty() {
                o.failures = s.failures;
                return o;
            }
            guard += 1;
            if guard > self.m.n.len() + 2 {
                break;
            }
        }
        let mut cur = a;
        // the node may have relatives: cycle a fresh leaf instead if it is not a lone root
        if !self.m.n[cur.slot].children.is_empty() || self.m.n[cur.slot].parent.is_some() || self.m.siblings(cur.slot).len() > 1 {
            let s = self.do_new(None, 0, &StepCfg { snapshot: false, max_live: usize::MAX, ..cfg.clone() });
            if !s.failures.is_empty() {
                o.failures = s.failures;
                return o;
            }
            cur = self.arg(self.m.n.len() - 1);
            if !self.m.n[cur.slot].live {
                return o;
            }
        }
        let light = StepCfg { snapshot: false, max_live: usize::MAX, ..cfg.clone() };
        let mut crossed = 0u32;
        for c in 0..cycles {
            let full = c % 1024 == 0 || c + 1 == cycles;
            // remove
            let old = cur;
            if full {
                let s = self.do_remove(old, false, cfg);
                if !s.failures.is_empty() {
                    o.failures = s.failures;
                    return o;
                }
            } else {
                let arena = &mut self.arena;
                if catch_unwind(AssertUnwindSafe(|| old.id.remove(arena))).is_err() {
                    o.failures.push(Failure::new(&["C05", "C06"], "churn/remove-panic", format!("remove of {:?} panicked in cycle {c}", old.id)));
                    return o;
                }
                let serial = self.m.n[old.slot].serial;
                self.m.remove(old.slot);
                self.check_drops("churn", vec![serial], &mut o.failures);
                let r = catch_unwind(AssertUnwindSafe(|| (old.id.is_removed(&self.arena), self.arena.get(old.id).map(|n| n.is_removed()))));
                if r.ok() != Some((true, Some(true))) {
                    o.failures.push(Failure::new(&["C06", "C12", "C04"], "churn/is-removed-false", format!("{} was removed (cycle {c}, {} recycles of its slot) but NodeId::is_removed / Node::is_removed do not both say so", idg(old.id), self.m.n[old.slot].recycles)));
                }
                if !o.failures.is_empty() {
                    return o;
                }
            }
            // sample older generations of this slot: must all stay removed
            if let Some(l) = self.ids.as_ref() {
                let hist = &l.per_slot[old.slot];
                let nh = hist.len();
                let probe = |i: usize| -> Option<Failure> {
                    let id = hist[i];
                    let r = catch_unwind(AssertUnwindSafe(|| id.is_removed(&self.arena)));
                    if r.ok() != Some(true) {
                        Some(Failure::new(&["C06"], "churn/old-id-live-again", format!("id {:?} (generation {i} of slot {}) was removed earlier but is_removed() is false after {} recycles", id, old.slot, nh)))
                    } else {
                        None
                    }
                };
                let mut idxs: Vec<usize> = (0..nh.min(4)).collect();
                idxs.extend((nh.saturating_sub(4))..nh);
                idxs.push((crate::ir::splitmix(c as u64 ^ 0x5bd1) % nh as u64) as usize);
                if full {
                    idxs = (0..nh).collect();
                }
                for i in idxs {
                    if let Some(f) = probe(i) {
                        o.failures.push(f);
                        return o;
                    }
                }
            }
            // re-create
            let s = if full { self.do_new(None, c, &StepCfg { snapshot: false, max_live: usize::MAX, ..cfg.clone() }) } else { self.do_new_light(c, &light) };
            if !s.failures.is_empty() {
                o.failures = s.failures;
                return o;
            }
            let newslot = self.m.n.iter().rposition(|m| m.live && m.serial + 1 == self.m.next_serial).unwrap();
            if newslot != old.slot {
                crossed += 1; // the slot was retired: continue churning the new one
            }
            cur = self.arg(newslot);
        }
        o.outcome = format!("ok retired={crossed}");
        let rc = self.m.n[cur.slot].recycles;
        o.nt.push(("C06", fnv(&format!("churn|{}|{}", cycles, rc))));
        o.nt.push(("C07", fnv(&format!("churn|{}|{}", cycles.min(100), crossed))));
        o
    }

    /// Add `n` nodes with light per-node checks (slot choice, id uniqueness) and one full check at
    /// the end.  Reaches arenas far larger than step-by-step histories can (index ranges beyond
    /// u8 / u16, long sibling lists, deep chains).
    fn do_grow(&mut self, under: Arg, n: u32, shape: u8, cfg: &StepCfg) -> StepOut {
        #[cfg(feature = "macros")]
        if shape % 8 == 7 {
            return self.do_tree_macro(under, n, cfg);
        }
        let mut o = StepOut::default();
        let shape = shape % 8 % 7;
        let n = if shape == 2 { n.min(1500) } else { n.min(80_000) } as usize;
        o.class = format!("grow/{}-{}", ["wide", "deep", "top-chain", "bushy", "comb", "deep-tail", "wide-late-middle"][shape as usize], if n >= 60_000 { "xl" } else if n >= 200 { "l" } else if n >= 20 { "m" } else { "s" });
        o.desc = format!("grow({}, {n}, shape {shape})", nid(under.id));
        if self.m.live_count() + n > 90_000 {
            return skip("grow");
        }
        // recycle what is free first (ordinary allocation path with its slot-choice oracle)
        let mut guard = 0u32;
        let limit = (self.m.n.len() + 2) as u32;
        while self.m.nfree + self.m.nmaybe > 0 && guard < limit {
            let s = self.do_new_light(guard, cfg);
            if !s.failures.is_empty() {
                o.failures = s.failures;
                return o;
            }
            guard += 1;
        }
        if self.m.nfree + self.m.nmaybe > 0 {
            return skip("grow");
        }
        let mut created: Vec<usize> = Vec::with_capacity(n);
        let mut last_root = self.m.root_of(under.slot);
        for i in 0..n {
            let parent_slot = match shape {
                0 | 6 => Some(under.slot),
                1 => Some(*created.last().unwrap_or(&under.slot)),
                2 => None,
                3 => Some(if i < 3 { under.slot } else { created[i / 3] }),
                // comb: even i = spine node below the previous spine node, odd i = leaf sibling after it
                4 => Some(if i < 2 { under.slot } else { created[(i - 2) / 2 * 2] }),
                // deep chain with a branching tail: the last four nodes are three children (+ one grandchild)
                _ => {
                    let tail = n.saturating_sub(4);
                    Some(if i == 0 {
                        under.slot
                    } else if i <= tail {
                        created[i - 1]
                    } else if i + 1 == n {
                        created[n - 2]
                    } else {
                        created[tail]
                    })
                }
            };
            let count0 = self.arena.count();
            let serial = self.m.next_serial;
            let v = (i % 97) as u32;
            let payload = self.mk(serial, v);
            let arena = &mut self.arena;
            // `append` walks the ancestors of the parent (O(depth)): on long chains use the O(1) append_value
            // beyond the first few hundred nodes, otherwise a 70 000-deep chain costs 10^9 steps
            let via = if i > 600 && matches!(shape, 1 | 4 | 5) { 0 } else { i % 3 };
            let r = catch_unwind(AssertUnwindSafe(|| match (parent_slot, via) {
                (Some(p), 0) => self.m.n[p].id.append_value(payload, arena),
                (Some(p), 1) => {
                    let id = arena.new_node(payload);
                    self.m.n[p].id.append(id, arena);
                    id
                }
                (Some(p), _) => {
                    let id = arena.new_node(payload);
                    self.m.n[p].id.checked_append(id, arena).expect("append of a new node");
                    id
                }
                (None, _) => {
                    let id = arena.new_node(payload);
                    self.m.n[last_root].id.insert_after(id, arena);
                    id
                }
            }));
            let id = match r {
                Ok(id) => id,
                Err(e) => {
                    o.failures.push(Failure::new(&["C05", "C03", "C07"], "grow/panic-on-possible", format!("adding node #{i} of {} panicked: {}", o.desc, panic_msg(e))));
                    return o;
                }
            };
            let slot = usize::from(id) - 1;
            if slot != count0 || self.arena.count() != count0 + 1 {
                o.failures.push(Failure::new(&["C07"], "grow/slot-choice", format!("no removed slot available: expected new slot {count0} and count {count0}+1, got slot {slot}, count {} (node #{i} of {})", self.arena.count(), o.desc)));
                return o;
            }
            self.record_issue(id, slot, "grow", &mut o.failures);
            if !o.failures.is_empty() {
                return o;
            }
            self.m.alloc(slot, id, v);
            match parent_slot {
                Some(p) => self.m.insert(Kind::Append, p, slot),
                None => {
                    self.m.insert(Kind::After, last_root, slot);
                    last_root = slot;
                }
            }
            created.push(slot);
        }
        if shape == 6 && created.len() >= 3 {
            let anchor = created[created.len() / 7];
            let serial = self.m.next_serial;
            let payload = self.mk(serial, 77);
            let arena = &mut self.arena;
            let aid = self.m.n[anchor].id;
            let r = catch_unwind(AssertUnwindSafe(|| {
                let id = arena.new_node(payload);
                aid.insert_after(id, arena);
                id
            }));
            match r {
                Ok(id) => {
                    let slot = usize::from(id) - 1;
                    if slot != self.m.n.len() {
                        o.failures.push(Failure::new(&["C07"], "grow/slot-choice", format!("no removed slot available but slot {slot} was returned")));
                        return o;
                    }
                    self.record_issue(id, slot, "grow", &mut o.failures);
                    self.m.alloc(slot, id, 77);
                    self.m.insert(Kind::After, anchor, slot);
                }
                Err(e) => {
                    o.failures.push(Failure::new(&["C05", "C03"], "grow/panic-on-possible", format!("insert_after of a new node panicked: {}", panic_msg(e))));
                    return o;
                }
            }
        }
        o.outcome = format!("ok +{n}");
        o.failures = self.check_state("grow", &["C03", "C07"]);
        self.check_drops("grow", vec![], &mut o.failures);
        let key = fnv(&format!("grow|{shape}|{}|{}", n, self.m.n.len()));
        for p in ["C01", "C03", "C07", "C09", "C11"] {
            o.nt.push((p, key));
        }
        o
    }

    /// Nodes created through the `tree!` macro (C07/C08 name it as a way to create nodes): a value root with
    /// a small literal, or a literal appended below an existing node.  Payload destructors are accounted for.
    #[cfg(feature = "macros")]
    fn do_tree_macro(&mut self, under: Arg, n: u32, cfg: &StepCfg) -> StepOut {
        use indextree::macros::tree;
        let mut o = StepOut::default();
        let value_root = n % 2 == 0;
        o.class = format!("tree_macro/{}", if value_root { "value-root" } else { "existing-root" });
        o.desc = format!("tree!({})", if value_root { "new root => { a, b => { c } }".to_string() } else { format!("{} => {{ a, b => {{ c }}, d }}", nid(under.id)) });
        if self.m.live_count() + 4 > cfg.max_live.max(48) {
            return skip("tree_macro");
        }
        let mut guard = 0u32;
        while self.m.nfree + self.m.nmaybe > 0 && guard < 64 {
            let s = self.do_new_light(guard, cfg);
            if !s.failures.is_empty() {
                o.failures = s.failures;
                return o;
            }
            guard += 1;
        }
        if self.m.nfree + self.m.nmaybe > 0 {
            return skip("tree_macro");
        }
        let count0 = self.arena.count();
        let s0 = self.m.next_serial;
        let p: Vec<P> = (0..4).map(|k| self.mk(s0 + k, 40 + k as u32)).collect();
        let mut it = p.into_iter();
        let (p0, p1, p2, p3) = (it.next().unwrap(), it.next().unwrap(), it.next().unwrap(), it.next().unwrap());
        let arena = &mut self.arena;
        let uid = under.id;
        let r = catch_unwind(AssertUnwindSafe(move || {
            if value_root {
                tree!(arena, p0 => { p1, p2 => { p3 } })
            } else {
                tree!(arena, uid => { p0, p1 => { p2 }, p3, })
            }
        }));
        let root = match r {
            Ok(id) => id,
            Err(e) => {
                o.failures.push(Failure::new(&["C05", "C07", "C15"], "tree_macro/panic", format!("{} panicked: {}", o.desc, panic_msg(e))));
                return o;
            }
        };
        if self.arena.count() != count0 + 4 {
            o.failures.push(Failure::new(&["C07", "C15"], "tree_macro/count", format!("{} created {} nodes for 4 written values", o.desc, self.arena.count() as i64 - count0 as i64)));
            return o;
        }
        // the four new slots, in creation (= textual) order
        let mut ids = Vec::new();
        for k in 0..4 {
            match std::num::NonZeroUsize::new(count0 + k + 1).and_then(|p| self.arena.get_node_id_at(p)) {
                Some(id) => ids.push(id),
                None => {
                    o.failures.push(Failure::new(&["C07", "C15"], "tree_macro/slot", format!("slot {} created by {} is not live", count0 + k, o.desc)));
                    return o;
                }
            }
        }
        for (k, id) in ids.iter().enumerate() {
            self.record_issue(*id, count0 + k, "tree_macro", &mut o.failures);
            self.m.alloc(count0 + k, *id, 40 + k as u32);
        }
        if !o.failures.is_empty() {
            return o;
        }
        let s = |k: usize| count0 + k;
        if value_root {
            if root != ids[0] {
                o.failures.push(Failure::new(&["C15"], "tree_macro/returned-id", format!("{} returned {} but the root it created is {}", o.desc, idg(root), idg(ids[0]))));
                return o;
            }
            self.m.insert(Kind::Append, s(0), s(1));
            self.m.insert(Kind::Append, s(0), s(2));
            self.m.insert(Kind::Append, s(2), s(3));
        } else {
            if root != under.id {
                o.failures.push(Failure::new(&["C15"], "tree_macro/returned-id", format!("{} returned {} instead of the given root", o.desc, idg(root))));
                return o;
            }
            self.m.insert(Kind::Append, under.slot, s(0));
            self.m.insert(Kind::Append, under.slot, s(1));
            self.m.insert(Kind::Append, s(1), s(2));
            self.m.insert(Kind::Append, under.slot, s(3));
        }
        o.outcome = "ok +4".into();
        o.failures = self.check_state("tree_macro", &["C15", "C07", "C03"]);
        self.check_drops("tree_macro", vec![], &mut o.failures);
        let key = fnv(&format!("tree_macro|{value_root}|{}", self.m.shape_marked(&[under.slot])));
        for pr in ["C07", "C08", "C15"] {
            o.nt.push((pr, key));
        }
        o
    }

    /// allocation with the C06/C07 checks but without table observation
    fn do_new_light(&mut self, v: u32, _cfg: &StepCfg) -> StepOut {
        let mut o = StepOut::default();
        let (nfree, nmaybe) = (self.m.nfree, self.m.nmaybe);
        let count0 = self.arena.count();
        let serial = self.m.next_serial;
        let payload = self.mk(serial, v);
        let arena = &mut self.arena;
        let id = match catch_unwind(AssertUnwindSafe(|| arena.new_node(payload))) {
            Ok(id) => id,
            Err(e) => {
                o.failures.push(Failure::new(&["C05", "C07"], "new_node/-/panic-on-possible", format!("new_node panicked: {}", panic_msg(e))));
                return o;
            }
        };
        let slot = usize::from(id) - 1;
        let count1 = self.arena.count();
        let st = if slot < self.m.n.len() { Some((self.m.n[slot].live, self.m.n[slot].free)) } else { None };
        let ok = match st {
            Some((true, _)) | Some((_, FreeState::Retired)) | Some((false, FreeState::NotFree)) => false,
            Some((false, FreeState::Free)) | Some((false, FreeState::MaybeRetired)) => count1 == count0,
            None => {
                if nfree == 0 && slot == count0 && count1 == count0 + 1 {
                    if nmaybe > 0 {
                        for s in self.m.maybe_retired() {
                            self.m.set_free(s, FreeState::Retired);
                        }
                    }
                    true
                } else {
                    false
                }
            }
        };
        if !ok {
            o.failures.push(Failure::new(
                &["C07"],
                "new_node/-/slot-choice",
                format!("new_node returned slot {slot} (count {count0}->{count1}); removed-and-reusable slots: {:?}, possibly exhausted: {:?}", self.m.free_set().iter().take(12).collect::<Vec<_>>(), self.m.maybe_retired()),
            ));
            return o;
        }
        self.record_issue(id, slot, "new_node", &mut o.failures);
        self.m.alloc(slot, id, v);
        let r = catch_unwind(AssertUnwindSafe(|| id.is_removed(&self.arena)));
        if r.ok() != Some(false) {
            o.failures.push(Failure::new(&["C06"], "new_node/-/fresh-id-removed", format!("fresh id {:?} reports is_removed() != false", id)));
        }
        o
    }

    /// Final accounting when the main-line world is torn down: every payload dropped exactly once.
    pub fn finish(mut self) -> Vec<Failure> {
        let mut out = Vec::new();
        if !self.track_drops {
            return out;
        }
        let live: Vec<u64> = self.m.n.iter().filter(|m| m.live).map(|m| m.serial).collect();
        let ctx = self.ctx.clone();
        let arena = std::mem::replace(&mut self.arena, Arena::new());
        drop(arena);
        self.check_drops("drop-arena", live, &mut out);
        let all = P::drop_log_from(&ctx, 0);
        let mut sorted = all.clone();
        sorted.retain(|&x| x < self.m.next_serial);
        sorted.sort();
        let dup = sorted.windows(2).find(|w| w[0] == w[1]).map(|w| w[0]);
        if let Some(d) = dup {
            out.push(Failure::new(&["C08"], "finish/double-drop", format!("payload serial {d} was dropped more than once")));
        }
        P::ctx_done(&ctx);
        out
    }
}

fn sibs_gt1(posname: &str) -> bool {
    posname != "only"
}

pub fn skip(opname: &str) -> StepOut {
    StepOut { desc: format!("{opname}(skipped)"), outcome: "skip".into(), class: format!("{opname}/skipped"), skipped: true, ..Default::default() }
}
