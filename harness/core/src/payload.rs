//! Payload types.  `Tracked` has an observable identity (`serial`) and logs its destruction in a
//! shared ledger (C08); `Plain` is a serialisable value without destructor bookkeeping (C16/C17).

use serde::{Deserialize, Serialize};
use std::cell::RefCell;

pub trait Payload: Clone + PartialEq + std::fmt::Debug + 'static {
    type Ctx: Clone + Default;
    const TRACKS_DROPS: bool;
    fn make(ctx: &Self::Ctx, serial: u64, val: u32) -> Self;
    /// an instance whose destruction is not logged (used on probe clones and scratch arenas)
    fn make_untracked(ctx: &Self::Ctx, serial: u64, val: u32) -> Self {
        Self::make(ctx, serial, val)
    }
    fn serial(&self) -> u64;
    fn val(&self) -> u32;
    fn set_val(&mut self, v: u32);
    /// number of *original* (non-clone) instances dropped so far, and the serial log
    fn drop_log_len(_ctx: &Self::Ctx) -> usize {
        0
    }
    fn drop_log_from(_ctx: &Self::Ctx, _from: usize) -> Vec<u64> {
        Vec::new()
    }
    fn clones_alive(_ctx: &Self::Ctx) -> i64 {
        0
    }
    /// the world that used this context is gone
    fn ctx_done(_ctx: &Self::Ctx) {}
    /// `par_iter()` visits exactly the nodes of `iter()` (only `Plain` in the `par_iter` build)
    fn par_check(_arena: &indextree::Arena<Self>) -> Option<Result<usize, String>> {
        None
    }
    /// text of the four pretty-printer modes for the subtree of `id` (payloads that are printable)
    fn pretty(_arena: &indextree::Arena<Self>, _id: indextree::NodeId) -> Option<[String; 4]> {
        None
    }
    /// serialise + deserialise an arena of this payload (only `Plain` in the `deser` build)
    fn roundtrip(_arena: &indextree::Arena<Self>) -> Option<Result<(indextree::Arena<Self>, usize), String>> {
        None
    }
}

#[derive(Clone, PartialEq, Eq, Debug, Serialize, Deserialize)]
pub struct Plain {
    pub serial: u64,
    pub val: u32,
}

impl std::fmt::Display for Plain {
    fn fmt(&self, f: &mut std::fmt::Formatter<'_>) -> std::fmt::Result {
        if f.alternate() {
            write!(f, "v{}\n#{}", self.val, self.serial)
        } else {
            write!(f, "v{}", self.val)
        }
    }
}

impl Payload for Plain {
    type Ctx = ();
    const TRACKS_DROPS: bool = false;
    fn pretty(arena: &indextree::Arena<Self>, id: indextree::NodeId) -> Option<[String; 4]> {
        use std::fmt::Write as _;
        // a sink that gives up after a few bytes: a print that ends in Err must not influence later prints
        struct Limited(usize);
        impl std::fmt::Write for Limited {
            fn write_str(&mut self, s: &str) -> std::fmt::Result {
                if s.len() > self.0 {
                    self.0 = 0;
                    return Err(std::fmt::Error);
                }
                self.0 -= s.len();
                Ok(())
            }
        }
        let p = id.debug_pretty_print(arena);
        // short single-line renderings ("v12"), so that the sink gives up somewhere below the root
        let _ = write!(Limited(5 + (usize::from(id) * 7) % 60), "{}", p);
        let _ = write!(Limited(40 + (usize::from(id) * 13) % 300), "{:#?}", p);
        Some([format!("{}", p), format!("{:#}", p), format!("{:?}", p), format!("{:#?}", p)])
    }
    #[cfg(feature = "par_iter")]
    fn par_check(arena: &indextree::Arena<Self>) -> Option<Result<usize, String>> {
        use rayon::prelude::*;
        let mut seq: Vec<usize> = arena.iter().map(|n| n as *const _ as usize).collect();
        let mut par: Vec<usize> = arena.par_iter().map(|n| n as *const _ as usize).collect();
        let removed_seq = arena.iter().filter(|n| n.is_removed()).count();
        let removed_par = arena.par_iter().filter(|n| n.is_removed()).count();
        seq.sort();
        par.sort();
        Some(if seq == par && removed_seq == removed_par { Ok(seq.len()) } else { Err(format!("iter() visits {} nodes ({} removed), par_iter() {} nodes ({} removed), or different ones", seq.len(), removed_seq, par.len(), removed_par)) })
    }
    #[cfg(feature = "deser")]
    fn roundtrip(arena: &indextree::Arena<Self>) -> Option<Result<(indextree::Arena<Self>, usize), String>> {
        let r = (|| {
            let txt = serde_json::to_string(arena).map_err(|e| format!("serialize: {e}"))?;
            let copy: indextree::Arena<Plain> = serde_json::from_str(&txt).map_err(|e| format!("deserialize: {e}"))?;
            // the copy must serialise to the same text (nothing lost, nothing invented)
            let txt2 = serde_json::to_string(&copy).map_err(|e| format!("serialize copy: {e}"))?;
            if txt2 != txt {
                return Err("the copy serialises to a different text than the original".to_string());
            }
            Ok((copy, txt.len()))
        })();
        Some(r)
    }
    fn make(_: &(), serial: u64, val: u32) -> Self {
        Plain { serial, val }
    }
    fn serial(&self) -> u64 {
        self.serial
    }
    fn val(&self) -> u32 {
        self.val
    }
    fn set_val(&mut self, v: u32) {
        self.val = v
    }
}

#[derive(Default, Debug)]
pub struct LedgerInner {
    /// serials of original instances, in drop order
    pub drop_log: Vec<u64>,
    pub clones_alive: i64,
}

thread_local! {
    /// ledgers live in a per-thread registry and payloads only hold an index into it: a payload that is
    /// (wrongly) dropped twice then merely logs twice instead of corrupting a reference count
    static LEDGERS: RefCell<Vec<LedgerInner>> = const { RefCell::new(Vec::new()) };
}

#[derive(Clone, Copy, Debug)]
pub struct Ledger(usize);

impl Default for Ledger {
    fn default() -> Self {
        LEDGERS.with(|l| {
            let mut l = l.borrow_mut();
            l.push(LedgerInner::default());
            Ledger(l.len() - 1)
        })
    }
}

impl Ledger {
    fn with<R>(&self, f: impl FnOnce(&mut LedgerInner) -> R) -> Option<R> {
        LEDGERS.try_with(|l| l.try_borrow_mut().ok().and_then(|mut l| l.get_mut(self.0).map(f))).ok().flatten()
    }
    /// forget the log of a finished world (keeps the registry small)
    pub fn release(&self) {
        self.with(|i| {
            i.drop_log = Vec::new();
        });
    }
}

#[derive(Debug)]
pub struct Tracked {
    pub serial: u64,
    pub val: u32,
    origin: bool,
    ledger: Ledger,
}

impl PartialEq for Tracked {
    fn eq(&self, o: &Self) -> bool {
        self.serial == o.serial && self.val == o.val
    }
}

impl Clone for Tracked {
    fn clone(&self) -> Self {
        self.ledger.with(|l| l.clones_alive += 1);
        Tracked { serial: self.serial, val: self.val, origin: false, ledger: self.ledger }
    }
}

impl Drop for Tracked {
    fn drop(&mut self) {
        let (origin, serial) = (self.origin, self.serial);
        self.ledger.with(|l| {
            if origin {
                l.drop_log.push(serial);
            } else {
                l.clones_alive -= 1;
            }
        });
    }
}

impl Payload for Tracked {
    type Ctx = Ledger;
    const TRACKS_DROPS: bool = true;
    fn make(ctx: &Ledger, serial: u64, val: u32) -> Self {
        Tracked { serial, val, origin: true, ledger: *ctx }
    }
    fn make_untracked(ctx: &Ledger, serial: u64, val: u32) -> Self {
        ctx.with(|l| l.clones_alive += 1);
        Tracked { serial, val, origin: false, ledger: *ctx }
    }
    fn serial(&self) -> u64 {
        self.serial
    }
    fn val(&self) -> u32 {
        self.val
    }
    fn set_val(&mut self, v: u32) {
        self.val = v
    }
    fn drop_log_len(ctx: &Ledger) -> usize {
        ctx.with(|l| l.drop_log.len()).unwrap_or(0)
    }
    fn drop_log_from(ctx: &Ledger, from: usize) -> Vec<u64> {
        ctx.with(|l| l.drop_log[from.min(l.drop_log.len())..].to_vec()).unwrap_or_default()
    }
    fn ctx_done(ctx: &Ledger) {
        ctx.release();
    }
    fn clones_alive(ctx: &Ledger) -> i64 {
        ctx.with(|l| l.clones_alive).unwrap_or(0)
    }
}

// ------------------------------------------------------------------------------------------------
// further serialisable payload shapes for C16: the derives under test must round-trip whatever the
// payload looks like on the wire (a bare integer, an optional value that may be `null`, a string).

macro_rules! wire_payload {
    ($name:ident, $inner:ty, $enc:expr, $dec:expr) => {
        #[derive(Clone, PartialEq, Eq, Debug, Serialize, Deserialize)]
        #[serde(transparent)]
        pub struct $name(pub $inner);

        impl Payload for $name {
            type Ctx = ();
            const TRACKS_DROPS: bool = false;
            fn make(_: &(), serial: u64, val: u32) -> Self {
                let enc: fn(u64) -> $inner = $enc;
                $name(enc(serial << 24 | (val as u64 & 0xff_ffff)))
            }
            fn serial(&self) -> u64 {
                let dec: fn(&$inner) -> u64 = $dec;
                dec(&self.0) >> 24
            }
            fn val(&self) -> u32 {
                let dec: fn(&$inner) -> u64 = $dec;
                (dec(&self.0) & 0xff_ffff) as u32
            }
            fn set_val(&mut self, v: u32) {
                let s = self.serial();
                *self = Self::make(&(), s, v);
            }
            #[cfg(feature = "deser")]
            fn roundtrip(arena: &indextree::Arena<Self>) -> Option<Result<(indextree::Arena<Self>, usize), String>> {
                let r = (|| {
                    let txt = serde_json::to_string(arena).map_err(|e| format!("serialize: {e}"))?;
                    let copy: indextree::Arena<$name> = serde_json::from_str(&txt).map_err(|e| format!("deserialize: {e}"))?;
                    let txt2 = serde_json::to_string(&copy).map_err(|e| format!("serialize copy: {e}"))?;
                    if txt2 != txt {
                        return Err("the copy serialises to a different text than the original".to_string());
                    }
                    Ok((copy, txt.len()))
                })();
                Some(r)
            }
        }
    };
}

wire_payload!(IntP, u64, |x| x, |x| *x);
wire_payload!(OptP, Option<u64>, |x| Some(x), |x| x.unwrap_or(u64::MAX));
wire_payload!(StrP, String, |x| x.to_string(), |x| x.parse().unwrap_or(u64::MAX));
wire_payload!(UnitLikeP, (u64, ()), |x| (x, ()), |x| x.0);
wire_payload!(U128P, u128, |x| x as u128, |x| *x as u64);
wire_payload!(MapP, std::collections::BTreeMap<u32, u64>, |x| std::iter::once(((x & 7) as u32, x)).collect(), |x| x.values().next().copied().unwrap_or(u64::MAX));
