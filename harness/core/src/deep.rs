//! Deep checks at a state: traversals (C09), double-ended iterator laws (C10), lookup agreement
//! (C11), free-list drain (C07) and one-step probes on clones (C02/C03/C04/C05/C12).

use crate::ir::{splitmix, Kind, Op, Sel};
use crate::model::FreeState;
use crate::payload::Payload;
use crate::world::{fnv, panic_msg, Failure, StepCfg, StepOut, World};
use indextree::{Arena, NodeEdge, NodeId};
use std::collections::VecDeque;
use std::num::NonZeroUsize;
use std::panic::{catch_unwind, AssertUnwindSafe};

#[derive(Default)]
pub struct DeepOut {
    pub failures: Vec<Failure>,
    pub nt: Vec<(&'static str, u64)>,
    pub evals: u64,
    /// for probe failures: the concrete op that fails when appended to the history so far
    pub failing_op: Option<Op>,
    /// failures of other properties that were skipped
    pub other: u64,
    /// digest of every probe's call and outcome (build-vs-build comparisons see probes too)
    pub digest: u64,
}

fn collect_capped<I: Iterator>(it: I, cap: usize) -> Vec<I::Item> {
    it.take(cap + 1).collect()
}

/// long sequences are shown by their first divergence only
fn show<T: std::fmt::Debug + PartialEq>(got: &[T], want: &[T]) -> String {
    if got.len().max(want.len()) <= 24 {
        return format!("{:?}, the forest defines {:?}", got, want);
    }
    let k = got.iter().zip(want.iter()).position(|(a, b)| a != b).unwrap_or(got.len().min(want.len()));
    let lo = k.saturating_sub(2);
    format!(
        "{} items, the forest defines {}; first difference at position {k}: yielded {:?} …, expected {:?} …",
        got.len(),
        want.len(),
        &got[lo.min(got.len())..(k + 3).min(got.len())],
        &want[lo.min(want.len())..(k + 3).min(want.len())]
    )
}

impl<P: Payload> World<P> {
    fn ids(&self, v: &[usize]) -> Vec<NodeId> {
        v.iter().map(|&s| self.m.n[s].id).collect()
    }

    fn model_edges(&self, x: usize, out: &mut Vec<NodeEdge>) {
        // iterative: subtrees may be tens of thousands deep
        let mut stack: Vec<(usize, usize)> = vec![(x, 0)];
        out.push(NodeEdge::Start(self.m.n[x].id));
        while let Some((n, i)) = stack.pop() {
            if i < self.m.n[n].children.len() {
                stack.push((n, i + 1));
                let c = self.m.n[n].children[i];
                out.push(NodeEdge::Start(self.m.n[c].id));
                stack.push((c, 0));
            } else {
                out.push(NodeEdge::End(self.m.n[n].id));
            }
        }
    }

    /// C09 (+ finiteness clause of C02) for the given start nodes.
    #[allow(deprecated)]
    pub fn check_traversals(&self, starts: &[usize], d: &mut DeepOut) {
        let m = &self.m;
        let a = &self.arena;
        let nlive = m.live_count();
        for &x in starts {
            let id = m.n[x].id;
            let sib = m.siblings(x);
            let i = sib.iter().position(|&c| c == x).unwrap();
            // expected sequences from the model
            let mut anc = vec![x];
            let mut cur = m.n[x].parent;
            while let Some(p) = cur {
                anc.push(p);
                cur = m.n[p].parent;
            }
            let mut pred = Vec::new();
            {
                // x, its earlier siblings (nearest first), then the parent, the parent's earlier siblings, …
                // (one position lookup per level: sibling lists may hold tens of thousands of nodes)
                let mut c = x;
                loop {
                    let l = m.siblings(c);
                    let j = l.iter().position(|&y| y == c).unwrap();
                    pred.extend(l[..=j].iter().rev().copied());
                    match m.n[l[0]].parent {
                        Some(p) => c = p,
                        None => break,
                    }
                }
            }
            let prec: Vec<usize> = sib[..=i].iter().rev().copied().collect();
            let foll: Vec<usize> = sib[i..].to_vec();
            let kids = m.n[x].children.clone();
            let rkids: Vec<usize> = kids.iter().rev().copied().collect();
            let desc = m.preorder(x);
            let mut edges = Vec::new();
            self.model_edges(x, &mut edges);
            let redges: Vec<NodeEdge> = edges.iter().rev().copied().collect();

            macro_rules! cmp_ids {
                ($name:expr, $iter:expr, $want:expr) => {{
                    let want: Vec<NodeId> = self.ids(&$want);
                    let got = catch_unwind(AssertUnwindSafe(|| collect_capped($iter, nlive)));
                    d.evals += 1;
                    match got {
                        Ok(g) if g == want => {}
                        Ok(g) => {
                            let over = g.len() > nlive;
                            let props: &[&'static str] = if over { &["C09", "C02"] } else { &["C09"] };
                            d.failures.push(Failure::new(
                                props,
                                format!("{}/{}", $name, if over { "does-not-end" } else { "wrong-sequence" }),
                                format!("{:?}.{}() yields {}{}", id, $name, show(&g, &want), if over { " (cut off: it does not end)" } else { "" }),
                            ));
                            return;
                        }
                        Err(e) => {
                            d.failures.push(Failure::new(&["C09"], format!("{}/panic", $name), format!("{:?}.{}() panicked: {}", id, $name, panic_msg(e))));
                            return;
                        }
                    }
                }};
            }
            cmp_ids!("ancestors", id.ancestors(a), anc);
            cmp_ids!("predecessors", id.predecessors(a), pred);
            cmp_ids!("preceding_siblings", id.preceding_siblings(a), prec);
            cmp_ids!("following_siblings", id.following_siblings(a), foll);
            cmp_ids!("children", id.children(a), kids);
            cmp_ids!("reverse_children", id.reverse_children(a), rkids);
            cmp_ids!("descendants", id.descendants(a), desc);
            for (name, want, fwd) in [("traverse", &edges, true), ("reverse_traverse", &redges, false)] {
                let got = catch_unwind(AssertUnwindSafe(|| if fwd { collect_capped(id.traverse(a), 2 * nlive) } else { collect_capped(id.reverse_traverse(a), 2 * nlive) }));
                d.evals += 1;
                match got {
                    Ok(g) if &g == want => {}
                    Ok(g) => {
                        let over = g.len() > 2 * nlive;
                        let props: &[&'static str] = if over { &["C09", "C02"] } else { &["C09"] };
                        d.failures.push(Failure::new(
                            props,
                            format!("{name}/{}", if over { "does-not-end" } else { "wrong-sequence" }),
                            format!("{:?}.{name}() yields {}", id, show(&g, want)),
                        ));
                        return;
                    }
                    Err(e) => {
                        d.failures.push(Failure::new(&["C09"], format!("{name}/panic"), format!("{:?}.{name}() panicked: {}", id, panic_msg(e))));
                        return;
                    }
                }
            }
            // stepping inside the subtree reproduces both sequences
            for w in edges.windows(2) {
                let n = catch_unwind(AssertUnwindSafe(|| (w[0].next_traverse(a), w[1].prev_traverse(a))));
                d.evals += 1;
                if n.as_ref().ok() != Some(&(Some(w[1]), Some(w[0]))) {
                    d.failures.push(Failure::new(
                        &["C09"],
                        "node-edge/step-in-subtree",
                        format!("in the subtree of {:?}: {:?}.next_traverse() / {:?}.prev_traverse() = {:?}, expected ({:?}, {:?})", id, w[0], w[1], n.ok(), w[1], w[0]),
                    ));
                    return;
                }
            }
            let has_parent_or_chain = m.n[x].parent.is_some() || sib.len() > 1;
            if has_parent_or_chain && desc.len() >= 2 {
                d.nt.push(("C09", fnv(&format!("trav|{}", m.shape_marked(&[x])))));
            }
        }
    }

    /// C09: global stepping — along each top-level chain the edge sequence of the whole chain is
    /// reproduced by next_traverse / prev_traverse, the two are inverse, and the ends return None.
    pub fn check_edge_steps(&self, d: &mut DeepOut) {
        let a = &self.arena;
        for ch in &self.m.chains {
            let mut seq = Vec::new();
            for &r in ch {
                self.model_edges(r, &mut seq);
            }
            for k in 0..seq.len() {
                let want_next = seq.get(k + 1).copied();
                let want_prev = if k > 0 { Some(seq[k - 1]) } else { None };
                let got = catch_unwind(AssertUnwindSafe(|| (seq[k].next_traverse(a), seq[k].prev_traverse(a))));
                d.evals += 1;
                let got = match got {
                    Ok(g) => g,
                    Err(e) => {
                        d.failures.push(Failure::new(&["C09"], "node-edge/panic", format!("stepping from {:?} panicked: {}", seq[k], panic_msg(e))));
                        return;
                    }
                };
                if got != (want_next, want_prev) {
                    d.failures.push(Failure::new(
                        &["C09"],
                        "node-edge/step",
                        format!("{:?}: next_traverse = {:?} (expected {:?}), prev_traverse = {:?} (expected {:?})", seq[k], got.0, want_next, got.1, want_prev),
                    ));
                    return;
                }
                // inverse law
                if let Some(nx) = got.0 {
                    let back = catch_unwind(AssertUnwindSafe(|| nx.prev_traverse(a)));
                    if back.ok() != Some(Some(seq[k])) {
                        d.failures.push(Failure::new(&["C09"], "node-edge/not-inverse", format!("{:?}.next_traverse().prev_traverse() != itself", seq[k])));
                        return;
                    }
                }
                if let Some(pv) = got.1 {
                    let fwd = catch_unwind(AssertUnwindSafe(|| pv.next_traverse(a)));
                    if fwd.ok() != Some(Some(seq[k])) {
                        d.failures.push(Failure::new(&["C09"], "node-edge/not-inverse", format!("{:?}.prev_traverse().next_traverse() != itself", seq[k])));
                        return;
                    }
                }
            }
        }
    }

    /// C10 for the given start nodes.  Sequences with len + 2 <= `exh_bits` get *all* pull patterns,
    /// longer ones `sampled` patterns derived from `seed`.
    pub fn check_dei(&self, starts: &[usize], seed: u64, exh_bits: u32, sampled: u32, d: &mut DeepOut) {
        let m = &self.m;
        let a = &self.arena;
        for &x in starts {
            let id = m.n[x].id;
            let sib = m.siblings(x);
            let i = sib.iter().position(|&c| c == x).unwrap();
            let prec: Vec<NodeId> = self.ids(&sib[..=i].iter().rev().copied().collect::<Vec<_>>());
            let foll: Vec<NodeId> = self.ids(&sib[i..]);
            let kids: Vec<NodeId> = self.ids(&m.n[x].children);
            let parentless = m.n[x].parent.is_none();
            for (which, f) in [("children", &kids), ("preceding_siblings", &prec), ("following_siblings", &foll)] {
                let l = f.len();
                let bits = (l + 2) as u32;
                let patterns: Vec<u64> = if bits <= exh_bits {
                    (0..(1u64 << bits)).collect()
                } else {
                    let mut v = vec![0u64, u64::MAX, 0xAAAA_AAAA_AAAA_AAAA, 0x5555_5555_5555_5555];
                    for k in 0..sampled as u64 {
                        v.push(splitmix(seed ^ (k << 32) ^ x as u64));
                    }
                    v
                };
                let npulls = (l + 2).min(64);
                // patterns as (bits, number of pulls); bit = 1 means next_back
                let mut plans: Vec<(Vec<bool>, bool)> = patterns.iter().map(|pat| ((0..npulls).map(|b| (pat >> b) & 1 == 1).collect(), false)).collect();
                if bits > exh_bits && l <= 4096 {
                    // long sequences: every "k pulls from one end, then the rest (and two more) from the other" split near
                    // the interesting places — these exhaust the iterator, which 64 sampled pulls cannot
                    for k in [0usize, 1, 2, l / 2, l.saturating_sub(1), l, l + 1] {
                        for front_first in [true, false] {
                            let v: Vec<bool> = (0..l + 2).map(|i| if i < k { !front_first } else { front_first }).collect();
                            plans.push((v, true));
                        }
                    }
                }
                for (plan, _split) in plans {
                    let mut want: VecDeque<NodeId> = f.iter().copied().collect();
                    let res = catch_unwind(AssertUnwindSafe(|| {
                        macro_rules! run {
                            ($it:expr) => {{
                                let mut it = $it;
                                let mut got = Vec::with_capacity(plan.len());
                                for &back in &plan {
                                    if !back {
                                        got.push((false, it.next()));
                                    } else {
                                        got.push((true, it.next_back()));
                                    }
                                }
                                got
                            }};
                        }
                        match which {
                            "children" => run!(id.children(a)),
                            "preceding_siblings" => run!(id.preceding_siblings(a)),
                            _ => run!(id.following_siblings(a)),
                        }
                    }));
                    d.evals += 1;
                    let pulls = |got: &Vec<(bool, Option<NodeId>)>| -> String {
                        let s: String = got.iter().map(|(b, _)| if *b { 'B' } else { 'F' }).collect();
                        if s.len() > 80 {
                            // run-length form for long patterns
                            let mut out = String::new();
                            let mut cs = s.chars().peekable();
                            while let Some(c) = cs.next() {
                                let mut n = 1;
                                while cs.peek() == Some(&c) {
                                    cs.next();
                                    n += 1;
                                }
                                out.push_str(&format!("{c}x{n} "));
                            }
                            out
                        } else {
                            s
                        }
                    };
                    let got = match res {
                        Ok(g) => g,
                        Err(e) => {
                            d.failures.push(Failure::new(&["C10"], format!("{which}/panic"), format!("{:?}.{which}() panicked under a pull pattern: {}", id, panic_msg(e))));
                            return;
                        }
                    };
                    let mut mixed = (false, false);
                    let mut seen: Vec<NodeId> = Vec::new();
                    for (k, (back, item)) in got.iter().enumerate() {
                        let w = if *back { want.pop_back() } else { want.pop_front() };
                        if *back {
                            mixed.1 = true
                        } else {
                            mixed.0 = true
                        }
                        // a node handed out twice by one iterator also breaks "each node at most once" (C02)
                        let twice = item.map_or(false, |i| seen.contains(&i));
                        if let Some(i) = item {
                            if seen.len() < 4096 {
                                seen.push(*i);
                            }
                        }
                        if *item != w {
                            let fs = if f.len() > 12 { format!("{:?} … ({} elements)", &f[..6], f.len()) } else { format!("{:?}", f) };
                            let props: &[&'static str] = if twice { &["C10", "C02"] } else { &["C10"] };
                            d.failures.push(Failure::new(
                                props,
                                format!("{which}/{}/{}", if parentless { "parentless" } else { "with-parent" }, if *back { "next_back" } else { "next" }),
                                format!("{:?}.{which}() forward sequence is {fs}; pulls {} (F=next, B=next_back): pull #{k} returned {:?}, expected {:?}", id, pulls(&got), item, w),
                            ));
                            return;
                        }
                    }
                    if (l >= 2 && mixed.0 && mixed.1) || parentless {
                        let key: String = plan.iter().take(70).map(|b| if *b { 'B' } else { 'F' }).collect();
                        d.nt.push(("C10", fnv(&format!("{which}|{l}|{key}|{}|{parentless}", plan.len()))));
                    }
                }
                // internal iteration (count / last / for_each are built on fold) must respect both cursors:
                // after k pulls from the back exactly the first len-k elements remain
                for k in [1usize, l / 2] {
                    if k == 0 || k > l {
                        continue;
                    }
                    let rest = catch_unwind(AssertUnwindSafe(|| {
                        macro_rules! rest {
                            ($it:expr) => {{
                                let mut it = $it;
                                for _ in 0..k {
                                    it.next_back();
                                }
                                // directly on the iterator (an adaptor such as take() would go through next())
                                let c = it.clone().count();
                                let last = it.clone().last();
                                let mut each = Vec::new();
                                it.for_each(|x| {
                                    if each.len() <= l + 2 {
                                        each.push(x)
                                    }
                                });
                                (c, last, each)
                            }};
                        }
                        match which {
                            "children" => rest!(id.children(a)),
                            "preceding_siblings" => rest!(id.preceding_siblings(a)),
                            _ => rest!(id.following_siblings(a)),
                        }
                    }));
                    d.evals += 1;
                    let want_each: Vec<NodeId> = f[..l - k].to_vec();
                    let ok = matches!(&rest, Ok((c, last, each)) if *c == l - k && *last == want_each.last().copied() && *each == want_each);
                    if !ok {
                        d.failures.push(Failure::new(
                            &["C10"],
                            format!("{which}/{}/fold-after-next_back", if parentless { "parentless" } else { "with-parent" }),
                            format!("{:?}.{which}(): after {k} next_back() pulls count()/last()/for_each see {:?}, expected the first {} elements of the forward sequence", id, rest.ok().map(|(c, l2, e)| (c, l2, e.len())), l - k),
                        ));
                        return;
                    }
                }
                // rev() adaptor
                let rv = catch_unwind(AssertUnwindSafe(|| match which {
                    "children" => id.children(a).rev().take(l + 1).collect::<Vec<_>>(),
                    "preceding_siblings" => id.preceding_siblings(a).rev().take(l + 1).collect::<Vec<_>>(),
                    _ => id.following_siblings(a).rev().take(l + 1).collect::<Vec<_>>(),
                }));
                d.evals += 1;
                let want: Vec<NodeId> = f.iter().rev().copied().collect();
                if rv.as_ref().ok() != Some(&want) {
                    d.failures.push(Failure::new(
                        &["C10"],
                        format!("{which}/{}/rev", if parentless { "parentless" } else { "with-parent" }),
                        format!("{:?}.{which}().rev() yields {:?}, expected the forward sequence reversed {:?}", id, rv.ok(), want),
                    ));
                    return;
                }
            }
        }
    }

    /// C10 without the model: the laws relate an iterator to its OWN forward sequence, so they can be judged
    /// on any arena state (used when a case ends on a state the model cannot follow): from the back the
    /// forward sequence reversed, any mix of pulls hands out each element exactly once, then None at both ends.
    pub fn check_dei_selfref(&self, d: &mut DeepOut) {
        let a = &self.arena;
        let cap = self.m.n.len() + 1;
        for s in 0..self.m.n.len() {
            let id = self.m.n[s].id;
            let live = catch_unwind(AssertUnwindSafe(|| a.get(id).map_or(false, |n| !n.is_removed()))).unwrap_or(false);
            if !live {
                continue;
            }
            for which in ["children", "preceding_siblings", "following_siblings"] {
                let fwd = catch_unwind(AssertUnwindSafe(|| match which {
                    "children" => id.children(a).take(cap + 1).collect::<Vec<_>>(),
                    "preceding_siblings" => id.preceding_siblings(a).take(cap + 1).collect::<Vec<_>>(),
                    _ => id.following_siblings(a).take(cap + 1).collect::<Vec<_>>(),
                }));
                let Ok(f) = fwd else { continue };
                if f.len() > cap {
                    continue; // does not end: C02's business
                }
                let l = f.len();
                let mut plans: Vec<Vec<bool>> = Vec::new();
                if l + 2 <= 8 {
                    for pat in 0..(1u32 << (l + 2)) {
                        plans.push((0..l + 2).map(|b| (pat >> b) & 1 == 1).collect());
                    }
                } else {
                    for k in [0usize, 1, l / 2, l.saturating_sub(1), l, l + 1] {
                        for front_first in [true, false] {
                            plans.push((0..l + 2).map(|i| if i < k { !front_first } else { front_first }).collect());
                        }
                    }
                }
                for plan in plans {
                    let mut want: VecDeque<NodeId> = f.iter().copied().collect();
                    let res = catch_unwind(AssertUnwindSafe(|| {
                        macro_rules! run {
                            ($it:expr) => {{
                                let mut it = $it;
                                plan.iter().map(|&back| if back { it.next_back() } else { it.next() }).collect::<Vec<_>>()
                            }};
                        }
                        match which {
                            "children" => run!(id.children(a)),
                            "preceding_siblings" => run!(id.preceding_siblings(a)),
                            _ => run!(id.following_siblings(a)),
                        }
                    }));
                    d.evals += 1;
                    let Ok(got) = res else { continue };
                    for (k, (item, &back)) in got.iter().zip(plan.iter()).enumerate() {
                        let w = if back { want.pop_back() } else { want.pop_front() };
                        if *item != w {
                            let pulls: String = plan.iter().map(|b| if *b { 'B' } else { 'F' }).collect();
                            d.failures.push(Failure::new(
                                &["C10"],
                                format!("{which}/self-consistency/{}", if back { "next_back" } else { "next" }),
                                format!("{:?}.{which}() yields {:?} when only next() is used; with pulls {pulls} (F=next, B=next_back) pull #{k} returned {:?}, expected {:?}", id, f, item, w),
                            ));
                            return;
                        }
                    }
                }
            }
        }
    }

    /// C11: all lookup paths agree, for every slot, plus out-of-range positions and foreign refs.
    pub fn check_lookups(&mut self, d: &mut DeepOut) {
        let count = self.m.n.len();
        let r = catch_unwind(AssertUnwindSafe(|| -> Option<String> {
            let c = self.arena.count();
            if c != count || self.arena.iter().count() != c || self.arena.as_slice().len() != c {
                return Some(format!("count() = {c}, iter().count() = {}, as_slice().len() = {}, slots handed out = {count}", self.arena.iter().count(), self.arena.as_slice().len()));
            }
            if self.arena.is_empty() != (c == 0) {
                return Some(format!("is_empty() = {} with count() = {c}", self.arena.is_empty()));
            }
            for s in 0..count {
                let (id, live) = (self.m.n[s].id, self.m.n[s].live);
                let pos = NonZeroUsize::new(s + 1).unwrap();
                let at = self.arena.get_node_id_at(pos);
                if live {
                    let pm = self.arena.get_mut(id).map(|n| n as *mut _ as usize);
                    let pim = &mut self.arena[id] as *mut _ as usize;
                    let pg = self.arena.get(id).map(|n| n as *const _ as usize);
                    let pi = &self.arena[id] as *const _ as usize;
                    let ps = &self.arena.as_slice()[s] as *const _ as usize;
                    let pit = self.arena.iter().nth(s).map(|n| n as *const _ as usize);
                    if pg != Some(pi) || pm != Some(pi) || pim != pi || ps != pi || pit != Some(pi) {
                        return Some(format!("slot {s}: get/Index/get_mut/IndexMut/as_slice/iter address different nodes: {:?} {pi} {:?} {pim} {ps} {:?}", pg, pm, pit));
                    }
                    let back = self.arena.get_node_id(&self.arena[id]);
                    if back != Some(id) {
                        return Some(format!("slot {s}: get_node_id(&arena[{:?}]) = {:?}", id, back));
                    }
                    if at != Some(id) {
                        return Some(format!("slot {s}: get_node_id_at({pos}) = {:?}, expected {:?}", at, id));
                    }
                    let u: usize = id.into();
                    let nz: NonZeroUsize = id.into();
                    if u != s + 1 || nz.get() != s + 1 || id.to_string() != (s + 1).to_string() {
                        return Some(format!("slot {s}: usize = {u}, NonZeroUsize = {nz}, Display = {}; position in iter()/as_slice() is {}", id, s + 1));
                    }
                } else if at.is_some() {
                    return Some(format!("removed slot {s}: get_node_id_at({pos}) = {:?}, expected None", at));
                }
            }
            for extra in [1usize, 2, 1000] {
                if let Some(p) = count.checked_add(extra).and_then(NonZeroUsize::new) {
                    if let Some(x) = self.arena.get_node_id_at(p) {
                        return Some(format!("get_node_id_at({p}) = {:?} although count() = {count}", x));
                    }
                }
            }
            if let Some(x) = self.arena.get_node_id_at(NonZeroUsize::new(usize::MAX).unwrap()) {
                return Some(format!("get_node_id_at(usize::MAX) = {:?}", x));
            }
            // ids beyond the end, taken from a larger arena
            let mut big: Arena<P> = Arena::new();
            let mut far = Vec::new();
            for k in 0..count + 3 {
                let id = big.new_node(P::make_untracked(&self.ctx, u64::MAX - k as u64, 0));
                if k >= count {
                    far.push(id);
                }
            }
            for id in far {
                if self.arena.get(id).is_some() || self.arena.get_mut(id).is_some() {
                    return Some(format!("get/get_mut of out-of-range id {:?} is Some (count {count})", id));
                }
            }
            // foreign references
            let cl = self.arena.clone();
            for s in 0..count {
                if let Some(x) = self.arena.get_node_id(&cl.as_slice()[s]) {
                    return Some(format!("get_node_id(node of a clone, slot {s}) = {:?}, expected None", x));
                }
                if s < 3 {
                    let onstack = self.arena.as_slice()[s].clone();
                    if let Some(x) = self.arena.get_node_id(&onstack) {
                        return Some(format!("get_node_id(stack copy of slot {s}) = {:?}, expected None", x));
                    }
                }
            }
            for n in big.iter().take(3) {
                if let Some(x) = self.arena.get_node_id(n) {
                    return Some(format!("get_node_id(node of an unrelated arena) = {:?}", x));
                }
            }
            // a copy made by clone_from into a USED arena (different length, removed and recycled slots of its own)
            // must answer every lookup like the original
            let ids: Vec<NodeId> = big.iter().filter_map(|n| big.get_node_id(n)).collect();
            for (k, id) in ids.iter().enumerate() {
                if k % 3 == 0 {
                    id.remove(&mut big);
                }
            }
            for k in 0..2 {
                big.new_node(P::make_untracked(&self.ctx, u64::MAX - 100 - k, 0));
            }
            big.clone_from(&self.arena);
            if big != self.arena {
                return Some("dest.clone_from(&arena) left dest != arena (dest was a used arena)".to_string());
            }
            for s in 0..count {
                let (id, live) = (self.m.n[s].id, self.m.n[s].live);
                let at = big.get_node_id_at(NonZeroUsize::new(s + 1).unwrap());
                if at != if live { Some(id) } else { None } {
                    return Some(format!("in a copy made by clone_from: get_node_id_at({}) = {:?}, the original says {:?}", s + 1, at, if live { Some(id) } else { None }));
                }
                if live && big.get_node_id(&big[id]) != Some(id) {
                    return Some(format!("in a copy made by clone_from: get_node_id(&copy[{:?}]) = {:?}", id, big.get_node_id(&big[id])));
                }
            }
            None
        }));
        d.evals += count as u64 + 1;
        match r {
            Ok(None) => {}
            Ok(Some(msg)) => d.failures.push(Failure::new(&["C11"], "lookup/disagree", msg)),
            Err(e) => d.failures.push(Failure::new(&["C11"], "lookup/panic", format!("a lookup panicked: {}", panic_msg(e)))),
        }
        let removed = self.m.n.iter().filter(|m| !m.live).count();
        let recycled = self.m.n.iter().filter(|m| m.live && m.recycles > 0).count();
        if removed >= 1 && recycled >= 1 {
            d.nt.push(("C11", fnv(&format!("lookup|{}|{}|{}", self.m.shape(), removed, recycled))));
        }
    }

    /// C07: drain a clone's free list and compare with the model's free set.
    pub fn check_drain(&mut self, d: &mut DeepOut) {
        let free = self.m.free_set();
        let maybe = self.m.maybe_retired();
        let mut cl = self.arena.clone();
        let c0 = cl.count();
        let mut drained = Vec::new();
        let ctx = self.ctx.clone();
        let r = catch_unwind(AssertUnwindSafe(|| {
            for k in 0..free.len() + maybe.len() + 2 {
                let id = cl.new_node(P::make_untracked(&ctx, u64::MAX - k as u64, 0));
                if cl.count() > c0 {
                    break;
                }
                drained.push(usize::from(id) - 1);
            }
        }));
        d.evals += 1;
        if let Err(e) = r {
            d.failures.push(Failure::new(&["C07"], "drain/panic", format!("allocating on a clone panicked: {}", panic_msg(e))));
            return;
        }
        let mut sorted = drained.clone();
        sorted.sort();
        let dup = sorted.windows(2).any(|w| w[0] == w[1]);
        let missing: Vec<usize> = free.iter().copied().filter(|s| !drained.contains(s)).collect();
        let alien: Vec<usize> = drained.iter().copied().filter(|s| !(free.contains(s) || maybe.contains(s))).collect();
        let retired_back = drained.iter().any(|&s| self.m.n[s].free == FreeState::Retired);
        if dup || !missing.is_empty() || !alien.is_empty() || retired_back {
            d.failures.push(Failure::new(
                &["C07"],
                "drain/free-set",
                format!("removed-and-reusable slots are {:?} (possibly exhausted: {:?}); allocating until the arena grows handed out {:?}", free, maybe, drained),
            ));
        }
        drop(cl);
        if free.len() >= 2 {
            d.nt.push(("C07", fnv(&format!("drain|{:?}|{}", free, self.m.shape()))));
        }
    }

    /// candidates for pair probes: all current ids if few, else a seed-chosen subset that always
    /// contains a removed slot (if any) and keeps relatives together.
    pub(crate) fn probe_candidates(&self, seed: u64, max: usize) -> Vec<usize> {
        let n = self.m.n.len();
        if n <= max {
            return (0..n).collect();
        }
        let mut picked: Vec<usize> = Vec::new();
        let mut k = 0u64;
        let rem = self.m.removed_slots();
        if !rem.is_empty() {
            picked.push(rem[(splitmix(seed) % rem.len() as u64) as usize]);
        }
        // the deepest node and the root above it: the longest ancestor relation of the forest (O(n) depths)
        {
            let mut depth = vec![usize::MAX; n];
            let mut best = (0usize, usize::MAX);
            for s in 0..n {
                if !self.m.n[s].live {
                    continue;
                }
                // walk up until a node with known depth, then unwind
                let mut path = Vec::new();
                let mut cur = s;
                let base;
                loop {
                    if depth[cur] != usize::MAX {
                        base = depth[cur];
                        break;
                    }
                    path.push(cur);
                    match self.m.n[cur].parent {
                        Some(p) => cur = p,
                        None => {
                            base = usize::MAX; // marker: cur (last pushed) is a root
                            break;
                        }
                    }
                }
                let mut d = if base == usize::MAX { 0 } else { base + 1 };
                for &x in path.iter().rev() {
                    depth[x] = d;
                    d += 1;
                }
                if best.1 == usize::MAX || depth[s] > best.0 {
                    best = (depth[s], s);
                }
            }
            if best.1 != usize::MAX && best.0 >= 2 && max >= 3 {
                picked.push(best.1);
                let r = self.m.root_of(best.1);
                if !picked.contains(&r) {
                    picked.push(r);
                }
            }
        }
        while picked.len() < max {
            k += 1;
            let s = (splitmix(seed ^ k.wrapping_mul(0x9E37)) % n as u64) as usize;
            if !picked.contains(&s) {
                picked.push(s);
                // pull in a relative
                if self.m.n[s].live && picked.len() < max {
                    let rel = self.m.n[s].parent.or(self.m.n[s].children.first().copied());
                    if let Some(r) = rel {
                        if !picked.contains(&r) {
                            picked.push(r);
                        }
                    }
                }
            }
        }
        picked.sort();
        picked
    }

    fn run_probe(&self, op: Op, cfg: &StepCfg, d: &mut DeepOut) -> bool {
        let mut w = self.clone();
        let so: StepOut = w.step(&op, cfg);
        if so.skipped {
            return true;
        }
        d.evals += 1;
        d.digest = splitmix(d.digest ^ fnv(&so.desc) ^ fnv(&so.outcome).rotate_left(13) ^ fnv(&so.detail).rotate_left(29));
        d.nt.extend(so.nt.iter().copied());
        if !so.failures.is_empty() {
            // a probe failure that does not concern the property under check is only counted
            if let Some(t) = &cfg.target {
                if !so.failures.iter().any(|f| f.hits(t)) {
                    d.other += 1;
                    return true;
                }
            }
            d.failures = so.failures;
            d.failing_op = Some(op);
            return false;
        }
        true
    }

    /// every (entry point, a, b) over the candidate ids — one step each on a clone
    pub fn probe_pairs(&self, seed: u64, max_cand: usize, cfg: &StepCfg, d: &mut DeepOut) {
        let cand = self.probe_candidates(seed, max_cand);
        for &t in &cand {
            for &n in &cand {
                for kind in Kind::ALL {
                    for checked in [true, false] {
                        let op = Op::Insert { kind, checked, target: Sel::Slot(t as u32), node: Sel::Slot(n as u32) };
                        if !self.run_probe(op, cfg, d) {
                            return;
                        }
                        // a removed node can also be named by the handle get_node_id gives for its slot
                        if !self.m.n[t].live || !self.m.n[n].live {
                            let op = Op::Insert { kind, checked, target: Sel::SlotAlt(t as u32), node: Sel::SlotAlt(n as u32) };
                            if !self.run_probe(op, cfg, d) {
                                return;
                            }
                        }
                    }
                }
            }
        }
    }

    /// every live x: remove / remove_subtree / detach on clones; every removed r: append_value
    pub fn probe_unary(&self, seed: u64, cfg: &StepCfg, d: &mut DeepOut) {
        let slots: Vec<usize> = if self.m.n.len() > 64 { self.probe_candidates(seed ^ 0x5151, 12) } else { (0..self.m.n.len()).collect() };
        for s in slots {
            let sel = Sel::Slot(s as u32);
            let ops: Vec<Op> = if self.m.n[s].live {
                vec![Op::Remove { x: sel }, Op::RemoveSubtree { x: sel }, Op::Detach { x: sel }, Op::AppendValue { parent: sel, v: 7 }]
            } else {
                vec![Op::AppendValue { parent: sel, v: 7 }, Op::AppendValue { parent: Sel::SlotAlt(s as u32), v: 7 }]
            };
            for op in ops {
                if !self.run_probe(op, cfg, d) {
                    return;
                }
            }
        }
    }
}
