//! itv-core: property-based verification harness for indextree (see /verif/DESIGN.md).
pub mod deep;
pub mod engine;
pub mod gen;
pub mod ir;
pub mod model;
pub mod payload;
pub mod pretty;
pub mod world;

/// Replace the panic hook with a silent one (library panics are caught and judged by the oracles).
pub fn silence_panics() {
    std::panic::set_hook(Box::new(|_| {}));
}
