//! Engines: history interpreter, random (proptest) engine, exhaustive small-scope enumerators,
//! shrinker, statistics and replay files.

use crate::deep::DeepOut;
use crate::gen::{history_strategy, DeepCfg, Profile};
use crate::ir::{splitmix, Kind, Op, Sel};
use crate::payload::Payload;
use crate::world::{fnv, Failure, StepCfg, World};
use proptest::strategy::{Strategy, ValueTree};
use proptest::test_runner::{Config, RngAlgorithm, TestCaseError, TestError, TestRng, TestRunner};
use serde::{Deserialize, Serialize};
use std::cell::RefCell;
use std::collections::{BTreeMap, HashSet};

// ------------------------------------------------------------------------------------------------
// hang watchdog: every worker publishes the case it is executing; a supervisor thread (started by
// the runner) ends the process with exit code 3 and a replay file if one case runs for too long.

pub mod watch {
    use crate::ir::Op;
    use std::sync::Mutex;
    use std::time::Instant;

    pub struct Slot {
        pub since: Instant,
        pub ops: Vec<Op>,
        pub profile: String,
    }
    pub static SLOTS: Mutex<Vec<Option<Slot>>> = Mutex::new(Vec::new());

    pub fn begin(worker: usize, ops: &[Op], profile: &str) {
        if let Ok(mut g) = SLOTS.lock() {
            if g.len() <= worker {
                g.resize_with(worker + 1, || None);
            }
            g[worker] = Some(Slot { since: Instant::now(), ops: ops.to_vec(), profile: profile.to_string() });
        }
    }
    pub fn end(worker: usize) {
        if let Ok(mut g) = SLOTS.lock() {
            if let Some(s) = g.get_mut(worker) {
                *s = None;
            }
        }
    }
    /// the oldest case that has been running for more than `limit_s` seconds
    pub fn overdue(limit_s: u64) -> Option<(Vec<Op>, String, u64)> {
        let g = SLOTS.lock().ok()?;
        g.iter().flatten().filter(|s| s.since.elapsed().as_secs() >= limit_s).map(|s| (s.ops.clone(), s.profile.clone(), s.since.elapsed().as_secs())).next()
    }
    thread_local! {
        pub static WORKER: std::cell::Cell<usize> = const { std::cell::Cell::new(0) };
    }
    pub fn set_worker(w: usize) {
        WORKER.with(|c| c.set(w));
    }
    pub fn me() -> usize {
        WORKER.with(|c| c.get())
    }
}

// ------------------------------------------------------------------------------------------------
// running one history

#[derive(Clone, Debug, Default)]
pub struct CaseRun {
    /// index of the failing op, its failures, and (for probe failures) the concrete failing call
    pub fail: Option<(usize, Vec<Failure>, Option<Op>)>,
    pub trace: Vec<String>,
    pub nt: Vec<(&'static str, u64)>,
    pub classes: Vec<String>,
    pub digest: u64,
    pub evals: u64,
    pub steps: u64,
    pub skipped: u64,
    pub excluded: u64,
    /// executed ops with selectors resolved (`Sel::Slot`) — the shrinker's starting point
    pub concrete: Vec<Op>,
    pub features: CaseFeatures,
    /// failures of other properties after which the model was re-synchronised and the case went on
    pub resynced: u64,
}

#[derive(Clone, Debug, Default)]
pub struct CaseFeatures {
    pub max_live: usize,
    pub max_depth: usize,
    pub max_width: usize,
    pub slot_reuse: bool,
    pub top_chain: bool,
    pub failed_then_more: bool,
    pub subtree3: bool,
    pub same_list_move: bool,
}

pub fn deep_at<P: Payload>(w: &mut World<P>, seed: u64, dc: &DeepCfg, cfg: &StepCfg) -> DeepOut {
    let mut d = DeepOut::default();
    let mut live = w.m.live_slots();
    if live.len() > 64 {
        // large arena: a seed-chosen sample of start nodes (always the first and last slots)
        let all = live.clone();
        live = vec![all[0], all[all.len() - 1]];
        for k in 0..46u64 {
            live.push(all[(splitmix(seed ^ k.wrapping_mul(0x9E37_79B9)) % all.len() as u64) as usize]);
        }
        live.sort();
        live.dedup();
    }
    macro_rules! stop {
        () => {
            if !d.failures.is_empty() {
                match &cfg.target {
                    Some(t) if !d.failures.iter().any(|f| f.hits(t)) => {
                        d.other += d.failures.len() as u64;
                        d.failures.clear();
                    }
                    _ => return d,
                }
            }
        };
    }
    if dc.traversals {
        w.check_traversals(&live, &mut d);
        stop!();
        w.check_edge_steps(&mut d);
        stop!();
    }
    if dc.dei {
        w.check_dei(&live, seed, dc.dei_exh_bits, dc.dei_sampled, &mut d);
        stop!();
    }
    if dc.lookups {
        w.check_lookups(&mut d);
        stop!();
    }
    if dc.drain {
        w.check_drain(&mut d);
        stop!();
    }
    if dc.unary {
        w.probe_unary(seed, cfg, &mut d);
        stop!();
    }
    if dc.pairs {
        w.probe_pairs(seed, dc.max_cand, cfg, &mut d);
        stop!();
    }
    d
}

fn table_digest<P: Payload>(w: &World<P>) -> u64 {
    let mut s = String::new();
    if let Ok(rows) = w.observe() {
        for r in rows {
            s.push(if r.removed { 'x' } else { 'o' });
            for l in r.links {
                s.push_str(&l.map_or("-".to_string(), |i| usize::from(i).to_string()));
                s.push(',');
            }
        }
    }
    fnv(&s)
}

/// Everything a user can observe about the forest, for build-vs-build comparison (C17): all nine
/// traversals from every live node and the four pretty-printer modes of every top-level tree.
#[allow(deprecated)]
pub fn rich_digest<P: Payload>(w: &World<P>) -> u64 {
    use std::panic::{catch_unwind, AssertUnwindSafe};
    let a = &w.arena;
    let cap = w.m.live_count();
    let mut h = table_digest(w);
    // the same code must size its storage identically in every feature build
    h = splitmix(h ^ (a.capacity() as u64).rotate_left(9) ^ (a.count() as u64).rotate_left(33) ^ a.is_empty() as u64);
    let r = catch_unwind(AssertUnwindSafe(|| {
        let mut s = String::new();
        let f = |v: Vec<indextree::NodeId>| v.iter().map(|i| usize::from(*i).to_string()).collect::<Vec<_>>().join(",");
        let mut slots = w.m.live_slots();
        if slots.len() > 48 {
            // large forests: a fixed, evenly spaced sample of start nodes keeps the digest O(n)
            let step = slots.len() / 24;
            slots = slots.iter().copied().step_by(step.max(1)).collect();
        }
        for slot in slots {
            let id = w.m.n[slot].id;
            s.push_str(&f(id.ancestors(a).take(cap + 1).collect()));
            s.push(';');
            s.push_str(&f(id.predecessors(a).take(cap + 1).collect()));
            s.push(';');
            s.push_str(&f(id.preceding_siblings(a).take(cap + 1).collect()));
            s.push(';');
            s.push_str(&f(id.following_siblings(a).take(cap + 1).collect()));
            s.push(';');
            s.push_str(&f(id.children(a).take(cap + 1).collect()));
            s.push(';');
            s.push_str(&f(id.reverse_children(a).take(cap + 1).collect()));
            s.push(';');
            s.push_str(&f(id.descendants(a).take(cap + 1).collect()));
            s.push(';');
            s.push_str(&format!("{:?}", id.traverse(a).take(2 * cap + 1).collect::<Vec<_>>().len()));
            s.push_str(&format!("{:?}", id.reverse_traverse(a).take(2 * cap + 1).map(|e| match e { indextree::NodeEdge::Start(i) => usize::from(i) * 2, indextree::NodeEdge::End(i) => usize::from(i) * 2 + 1 }).collect::<Vec<_>>()));
            s.push('\n');
            if w.m.n[slot].parent.is_none() {
                if let Some(p) = P::pretty(a, id) {
                    for t in p {
                        s.push_str(&t);
                        s.push('\u{1}');
                    }
                }
            }
        }
        s
    }));
    match r {
        Ok(s) => h = splitmix(h ^ fnv(&s)),
        Err(_) => h = splitmix(h ^ 0xdead),
    }
    h
}

/// Interpret a history.  Stops at the first step with any failure.
pub fn run_history<P: Payload>(ops: &[Op], prof: &Profile, cfg: &StepCfg, record: bool) -> CaseRun {
    let mut w: World<P> = World::new();
    let mut run = run_history_on(&mut w, ops, prof, cfg, record);
    if run.fail.is_none() {
        let f = w.finish();
        if !f.is_empty() {
            run.fail = Some((ops.len(), f, None));
        }
    }
    run
}

/// Model-free continuation for C02 (see the call site): valid calls only — ids are current, liveness is
/// read from the arena's removed flags before every call — outcomes are ignored, and after every call the
/// parent / next / previous links of all slots are walked with three colours.
fn degraded_tail_c02<P: Payload>(w: &mut World<P>, rest: &[Op]) -> Vec<Failure> {
    use crate::ir::pick;
    use std::panic::{catch_unwind, AssertUnwindSafe};
    let mut ids: Vec<indextree::NodeId> = w.m.n.iter().map(|m| m.id).collect();
    let cycle = |w: &World<P>, ids: &Vec<indextree::NodeId>| -> Option<String> {
        let n = ids.len();
        let mut links: Vec<[Option<usize>; 3]> = Vec::with_capacity(n);
        let mut live = vec![false; n];
        for (s, id) in ids.iter().enumerate() {
            let node = w.arena.get(*id)?;
            live[s] = !node.is_removed();
            let f = |l: Option<indextree::NodeId>| l.map(|i| usize::from(i) - 1).filter(|&t| t < n);
            links.push([f(node.parent()), f(node.next_sibling()), f(node.previous_sibling())]);
        }
        for (dir, what) in [(0usize, "parent"), (1, "next_sibling"), (2, "previous_sibling")] {
            let mut state = vec![0u8; n];
            for x in 0..n {
                if !live[x] || state[x] != 0 {
                    continue;
                }
                let mut path = Vec::new();
                let mut cur = Some(x);
                while let Some(y) = cur {
                    if state[y] == 1 {
                        return Some(format!("following {what} links from slot {x} never ends (cycle through slot {y})"));
                    }
                    if state[y] == 2 {
                        break;
                    }
                    state[y] = 1;
                    path.push(y);
                    cur = links[y][dir];
                }
                for y in path {
                    state[y] = 2;
                }
            }
        }
        None
    };
    for op in rest.iter().take(60) {
        if w.arena.count() != ids.len() {
            break;
        }
        let live: Vec<usize> = (0..ids.len()).filter(|&s| w.arena.get(ids[s]).map_or(false, |n| !n.is_removed())).collect();
        if live.is_empty() {
            break;
        }
        let sel = |s: &Sel| -> usize {
            match s {
                Sel::Slot(k) | Sel::SlotAlt(k) if (*k as usize) < ids.len() && live.contains(&(*k as usize)) => *k as usize,
                Sel::Slot(k) | Sel::SlotAlt(k) => live[*k as usize % live.len()],
                Sel::Live(k) | Sel::Removed(k) | Sel::Rel(_, k) => live[pick(*k, live.len())],
            }
        };
        let serial = w.m.next_serial;
        w.m.next_serial += 1;
        let arena = &mut w.arena;
        let ctx = w.ctx.clone();
        let new_id = catch_unwind(AssertUnwindSafe(|| -> Option<indextree::NodeId> {
            match op {
                Op::New { v } => Some(arena.new_node(P::make_untracked(&ctx, serial, *v))),
                Op::AppendValue { parent, v } => Some(ids[sel(parent)].append_value(P::make_untracked(&ctx, serial, *v), arena)),
                Op::Insert { kind, target, node, .. } => {
                    let (t, n) = (ids[sel(target)], ids[sel(node)]);
                    let _ = match kind {
                        Kind::Append => t.checked_append(n, arena),
                        Kind::Prepend => t.checked_prepend(n, arena),
                        Kind::After => t.checked_insert_after(n, arena),
                        Kind::Before => t.checked_insert_before(n, arena),
                    };
                    None
                }
                Op::Detach { x } => {
                    ids[sel(x)].detach(arena);
                    None
                }
                Op::Remove { x } => {
                    ids[sel(x)].remove(arena);
                    None
                }
                Op::RemoveSubtree { x } => {
                    ids[sel(x)].remove_subtree(arena);
                    None
                }
                _ => None,
            }
        }));
        if let Ok(Some(id)) = new_id {
            let slot = usize::from(id) - 1;
            if slot == ids.len() {
                ids.push(id);
            } else if slot < ids.len() {
                ids[slot] = id;
            } else {
                break;
            }
        }
        if w.arena.count() != ids.len() {
            break;
        }
        if let Some(msg) = cycle(w, &ids) {
            return vec![Failure::new(&["C02"], "degraded/link-cycle", format!("after the forest had stopped being well-formed (reported for another property), a further valid call ({}) closed a loop: {msg}", op.kind_name()))];
        }
    }
    Vec::new()
}

pub fn run_history_on<P: Payload>(w: &mut World<P>, ops: &[Op], prof: &Profile, cfg: &StepCfg, record: bool) -> CaseRun {
    let mut run = CaseRun::default();
    let mut dig: u64 = 0xfeed;
    let mut failed_seen = false;
    for (i, op) in ops.iter().enumerate() {
        if let Op::Probe { seed } = op {
            let d = deep_at(w, *seed, &prof.deep, cfg);
            run.evals += d.evals;
            dig = splitmix(dig ^ d.digest);
            run.nt.extend(d.nt.iter().copied());
            run.concrete.push(op.clone());
            if record {
                run.trace.push(format!("probe({seed:#x}) [{} evaluations]", d.evals));
            }
            if !d.failures.is_empty() {
                run.fail = Some((i, d.failures, d.failing_op));
                break;
            }
            continue;
        }
        let so = w.step(op, cfg);
        run.classes.push(so.class.clone());
        if so.skipped {
            run.skipped += 1;
            continue;
        }
        run.steps += 1;
        run.evals += 1;
        if failed_seen {
            run.features.failed_then_more = true;
        }
        if so.outcome.starts_with("err") || so.outcome == "panic" {
            failed_seen = true;
        }
        dig = splitmix(dig ^ fnv(&so.desc) ^ fnv(&so.outcome).rotate_left(17) ^ fnv(&so.detail).rotate_left(31));
        if prof.name == "C17" && (i % 4 == 3 || i + 1 == ops.len()) {
            dig = splitmix(dig ^ rich_digest(w));
            run.evals += 1;
            if let Some(r) = P::par_check(&w.arena) {
                run.evals += 1;
                if let Err(msg) = r {
                    run.fail = Some((i, vec![Failure::new(&["C17"], "par_iter/differs", msg)], None));
                    break;
                }
            }
            if so.outcome.starts_with("err") && w.m.n.iter().any(|m| m.recycles > 0) {
                run.nt.push(("C17", fnv(&format!("c17|{}|{}", so.class, w.m.shape()))));
            }
        }
        run.nt.extend(so.nt.iter().copied());
        if let Some(c) = so.concrete {
            run.concrete.push(c);
        }
        if record {
            run.trace.push(format!("{} -> {}", so.desc, so.outcome));
        }
        // features
        let lc = w.m.live_count();
        run.features.max_live = run.features.max_live.max(lc);
        if so.outcome.starts_with("id=") && w.m.n.iter().any(|m| m.recycles > 0) {
            run.features.slot_reuse = true;
        }
        if w.m.chains.iter().any(|c| c.len() >= 2) {
            run.features.top_chain = true;
        }
        if so.class.starts_with("remove_subtree") && so.class.contains("kids") {
            run.features.subtree3 = true;
        }
        if so.outcome == "ok" && ["prev", "next", "sibling", "first-child", "last-child", "mid-child"].iter().any(|r| so.class.ends_with(&format!("/{r}"))) {
            run.features.same_list_move = true;
        }
        if !so.failures.is_empty() {
            let hits = cfg.target.as_ref().map_or(true, |t| so.failures.iter().any(|f| f.hits(t)));
            if !hits && w.resync() {
                run.resynced += 1;
                continue;
            }
            if !hits && cfg.target.as_deref() == Some("C02") {
                // C02 has a model-free core (no cycles along parent / sibling links): the rest of the history is
                // executed without the model and only that core is judged after every call
                let fs = degraded_tail_c02(w, &ops[i + 1..]);
                if !fs.is_empty() {
                    run.fail = Some((i, fs, None));
                    break;
                }
            }
            if !hits && cfg.target.as_deref() == Some("C10") {
                // the double-ended laws relate an iterator to its own forward sequence: judge them on this state too
                let mut d = DeepOut::default();
                w.check_dei_selfref(&mut d);
                run.evals += d.evals;
                if !d.failures.is_empty() {
                    run.fail = Some((i, d.failures, None));
                    break;
                }
            }
            if !hits && cfg.target.as_deref() == Some("C11") {
                // the case ends here, but the lookup clauses have no well-formedness premise: judge them on
                // this state against what the history says about liveness (e.g. a removed node that stays visible)
                let mut d = DeepOut::default();
                w.check_lookups(&mut d);
                if !d.failures.is_empty() {
                    run.fail = Some((i, d.failures, None));
                    break;
                }
            }
            run.fail = Some((i, so.failures, None));
            break;
        }
    }
    if run.fail.is_none() && prof.deep.at_end {
        let seed = splitmix(dig);
        let d = deep_at(w, seed, &prof.deep, cfg);
        run.evals += d.evals;
        dig = splitmix(dig ^ d.digest);
        run.nt.extend(d.nt.iter().copied());
        if !d.failures.is_empty() {
            run.concrete.push(Op::Probe { seed });
            run.fail = Some((ops.len(), d.failures, d.failing_op));
        }
    }
    if w.m.n.len() <= 2000 {
        for s in 0..w.m.n.len() {
            if w.m.n[s].live {
                run.features.max_depth = run.features.max_depth.max(w.m.depth(s));
                run.features.max_width = run.features.max_width.max(w.m.n[s].children.len());
            }
        }
    } else {
        run.features.max_depth = 16;
    }
    run.excluded = w.excluded_calls;
    run.digest = splitmix(dig ^ table_digest(w));
    run
}

// ------------------------------------------------------------------------------------------------
// C13: arenas are plain values.  A case is ONE op vector
//     [Reserve{cap}] prefix [Probe{MARK_A}] contA [Probe{MARK_B}] contB
// so that the shrinker and the replay files work unchanged.

pub const MARK_A: u64 = 0xC13A;
pub const MARK_B: u64 = 0xC13B;

pub fn c13_split(ops: &[Op]) -> (usize, Vec<Op>, Vec<Op>, Vec<Op>) {
    let mut cap = 0usize;
    let mut parts: [Vec<Op>; 3] = [Vec::new(), Vec::new(), Vec::new()];
    let mut cur = 0;
    for (i, op) in ops.iter().enumerate() {
        match op {
            Op::Reserve { k } if i == 0 => cap = *k as usize,
            Op::Probe { seed } if *seed == MARK_A => cur = 1,
            Op::Probe { seed } if *seed == MARK_B => cur = 2,
            Op::Probe { .. } => {}
            o => parts[cur].push(o.clone()),
        }
    }
    let [p, a, b] = parts;
    (cap, p, a, b)
}

pub fn c13_eval<P: Payload>(ops: &[Op], prof: &Profile, cfg: &StepCfg, record: bool) -> CaseRun {
    let (cap, pre, a, b) = c13_split(ops);
    let flat = Profile { deep: DeepCfg::none(), ..prof.clone() };
    let mut total = CaseRun::default();
    let mut fails: Vec<Failure> = Vec::new();
    macro_rules! sub {
        ($w:expr, $ops:expr) => {{
            let r = run_history_on($w, $ops, &flat, cfg, record);
            total.evals += r.evals;
            total.steps += r.steps;
            total.skipped += r.skipped;
            total.classes.extend(r.classes.iter().cloned());
            total.nt.extend(r.nt.iter().copied());
            if record {
                total.trace.extend(r.trace.iter().cloned());
                total.trace.push("--".into());
            }
            if let Some((i, f, o)) = r.fail.clone() {
                total.fail = Some((i, f, o));
                total.concrete = ops.to_vec();
                return total;
            }
            r
        }};
    }
    let c13 = |sig: &str, msg: String| Failure::new(&["C13"], format!("c13/{sig}"), msg);
    // (i) determinism: two fresh arenas, same calls
    let mut w1: World<P> = World::new();
    let mut w2: World<P> = World::new();
    let r1 = sub!(&mut w1, &pre);
    let r2 = sub!(&mut w2, &pre);
    total.evals += 1;
    if r1.digest != r2.digest || w1.arena != w2.arena {
        fails.push(c13("replay-differs", "the same calls on two new arenas gave different ids/results or unequal arenas".into()));
    }
    let free_at_point = !w1.m.free_set().is_empty();
    // (ii) clone == original; both continue independently and equal replicas that never saw a clone
    let mut wc = w1.clone();
    total.evals += 1;
    if wc.arena != w1.arena {
        fails.push(c13("clone-not-equal", "arena.clone() != arena".into()));
    }
    let ra = sub!(&mut w1, &a);
    let rb = sub!(&mut wc, &b);
    let r2a = sub!(&mut w2, &a);
    total.evals += 1;
    if ra.digest != r2a.digest || w1.arena != w2.arena {
        fails.push(c13("original-disturbed-by-clone", "after cloning, the original continued differently from a replica that was never cloned".into()));
    }
    let mut w3: World<P> = World::new();
    let _ = sub!(&mut w3, &pre);
    let r3b = sub!(&mut w3, &b);
    total.evals += 1;
    if rb.digest != r3b.digest || wc.arena != w3.arena {
        fails.push(c13("clone-diverges", "the clone continued differently from a replica built by the same calls without cloning".into()));
    }
    // (ii') clone_from into an arena that has a history of its own: result == source, then behaves like it
    {
        let mut scratch = w2.clone(); // a used arena (prefix + contA): its own length, capacity and free list
        scratch.arena.clone_from(&w3.arena);
        scratch.m = w3.m.clone();
        scratch.ids = None;
        total.evals += 1;
        if scratch.arena != w3.arena {
            fails.push(c13("clone-from-not-equal", "dest.clone_from(&src) left dest != src (dest was a used arena with its own free list)".into()));
        } else {
            let mut twin = w3.clone();
            let rs = sub!(&mut scratch, &a);
            let rt = sub!(&mut twin, &a);
            total.evals += 1;
            if rs.digest != rt.digest || scratch.arena != twin.arena {
                fails.push(c13("clone-from-diverges", "an arena filled by clone_from behaves differently from its source under the same calls".into()));
            }
        }
    }
    // (iii) clear() then continuation == continuation on Arena::new()
    let cap0 = w1.arena.capacity();
    let had_free = !w1.m.free_set().is_empty();
    let rc = sub!(&mut w1, &[Op::Clear]);
    let _ = rc;
    total.evals += 1;
    if w1.arena.capacity() < cap0 {
        fails.push(c13("clear-capacity", format!("clear() reduced the capacity from {cap0} to {}", w1.arena.capacity())));
    }
    let mut wf: World<P> = World::new();
    wf.m.next_serial = w1.m.next_serial;
    let rcb = sub!(&mut w1, &b);
    let rfb = sub!(&mut wf, &b);
    total.evals += 1;
    if rcb.digest != rfb.digest || w1.arena != wf.arena {
        fails.push(c13("cleared-not-fresh", "after clear() the arena behaves differently from a new arena under the same calls (ids/results/arena differ)".into()));
    }
    // (iv) with_capacity(n): room for n, nothing observable
    let mut wk: World<P> = World::new();
    wk.arena = indextree::Arena::with_capacity(cap);
    total.evals += 1;
    if wk.arena.capacity() < cap || wk.arena != indextree::Arena::new() || !wk.arena.is_empty() {
        fails.push(c13("with-capacity", format!("with_capacity({cap}): capacity {} / not equal to a new arena", wk.arena.capacity())));
    }
    let mut wn: World<P> = World::new();
    let rka = sub!(&mut wk, &a);
    let rna = sub!(&mut wn, &a);
    if rka.digest != rna.digest || wk.arena != wn.arena {
        fails.push(c13("with-capacity-differs", "an arena created with_capacity behaves differently from Arena::new()".into()));
    }
    let allocs = |r: &CaseRun| r.classes.iter().any(|c| (c.starts_with("new_node") || c.starts_with("append_value")) && !c.ends_with("skipped"));
    if (free_at_point && allocs(&ra) && allocs(&rb)) || (had_free && allocs(&rcb)) {
        total.nt.push(("C13", fnv(&format!("c13|{}|{}|{}|{}", w3.m.shape(), free_at_point, had_free, a.len().min(6)))));
    }
    total.digest = splitmix(r1.digest ^ ra.digest.rotate_left(7) ^ rb.digest.rotate_left(13) ^ rcb.digest.rotate_left(29));
    total.concrete = ops.to_vec();
    if !fails.is_empty() {
        total.fail = Some((ops.len(), fails, None));
    }
    for w in [w1, w2, w3, wf, wk, wn] {
        let f = w.finish();
        if !f.is_empty() && total.fail.is_none() {
            total.fail = Some((ops.len(), f, None));
        }
    }
    total
}

// ------------------------------------------------------------------------------------------------
// C16: serde round trip.  `Op::Roundtrip` serialises the arena, deserialises it, compares, and
// lets the copy run the rest of the history in lock-step with the original.

pub fn c16_eval<P: Payload>(ops: &[Op], prof: &Profile, cfg: &StepCfg, record: bool) -> CaseRun {
    use std::panic::{catch_unwind, AssertUnwindSafe};
    let mut run = CaseRun::default();
    let mut main: World<P> = World::new();
    let mut shadows: Vec<World<P>> = Vec::new();
    let mut dig: u64 = 0xc16;
    let mut pending_nt: Option<String> = None;
    let c16 = |sig: &str, msg: String| Failure::new(&["C16"], format!("c16/{sig}"), msg);
    for (i, op) in ops.iter().enumerate() {
        match op {
            Op::Roundtrip => {
                let rt = catch_unwind(AssertUnwindSafe(|| P::roundtrip(&main.arena)));
                let rt = match rt {
                    Ok(None) => continue,
                    Ok(Some(r)) => r,
                    Err(e) => Err(format!("panic: {}", crate::world::panic_msg(e))),
                };
                run.evals += 1;
                run.concrete.push(op.clone());
                let mut fails = Vec::new();
                match rt {
                    Err(e) => fails.push(c16("roundtrip-error", format!("round trip through serde_json failed: {e}"))),
                    Ok((copy, bytes)) => {
                        if record {
                            run.trace.push(format!("roundtrip [{bytes} bytes of JSON] -> equal: {}", copy == main.arena));
                        }
                        if copy != main.arena {
                            fails.push(c16("not-equal", "deserialize(serialize(arena)) != arena".into()));
                        } else if let Some(l) = main.ids.as_ref() {
                            'outer: for (slot, hist) in l.per_slot.iter().enumerate() {
                                for id in hist {
                                    let a = catch_unwind(AssertUnwindSafe(|| id.is_removed(&main.arena))).ok();
                                    let b = catch_unwind(AssertUnwindSafe(|| id.is_removed(&copy))).ok();
                                    if a != b {
                                        fails.push(c16("is-removed-differs", format!("id {} of slot {slot}: is_removed is {:?} in the original and {:?} in the copy", crate::world::idg(*id), a, b)));
                                        break 'outer;
                                    }
                                }
                            }
                        }
                        if fails.is_empty() {
                            let free = main.m.free_set().len();
                            let retired = main.m.n.iter().filter(|m| m.free == crate::model::FreeState::Retired).count();
                            let rec = main.m.n.iter().filter(|m| m.live && m.recycles > 0).count();
                            if free > 0 {
                                pending_nt = Some(format!("c16|{}|f{}|r{}|x{}", main.m.shape(), free.min(4), rec.min(3), retired.min(2)));
                            }
                            let mut sh = main.clone();
                            sh.arena = copy;
                            if shadows.len() >= 2 {
                                shadows.remove(0);
                            }
                            shadows.push(sh);
                        }
                    }
                }
                if !fails.is_empty() {
                    run.fail = Some((i, fails, None));
                    break;
                }
            }
            Op::Probe { seed } => {
                let d = deep_at(&mut main, *seed, &prof.deep, cfg);
                run.evals += d.evals;
                run.nt.extend(d.nt.iter().copied());
                run.concrete.push(op.clone());
                if !d.failures.is_empty() {
                    run.fail = Some((i, d.failures, d.failing_op));
                    break;
                }
            }
            _ => {
                let so = main.step(op, cfg);
                run.classes.push(so.class.clone());
                if so.skipped {
                    run.skipped += 1;
                    continue;
                }
                run.steps += 1;
                run.evals += 1;
                dig = splitmix(dig ^ fnv(&so.desc) ^ fnv(&so.outcome).rotate_left(17));
                run.nt.extend(so.nt.iter().copied());
                if record {
                    run.trace.push(format!("{} -> {}", so.desc, so.outcome));
                }
                let conc = so.concrete.clone();
                if let Some(c) = &conc {
                    run.concrete.push(c.clone());
                }
                if !so.failures.is_empty() {
                    run.fail = Some((i, so.failures, None));
                    break;
                }
                if so.outcome.starts_with("id=") {
                    if let Some(k) = pending_nt.take() {
                        run.nt.push(("C16", fnv(&k)));
                    }
                }
                // the copies run the same call
                let mut fails = Vec::new();
                for (k, sh) in shadows.iter_mut().enumerate() {
                    let c = conc.clone().unwrap_or_else(|| op.clone());
                    let s2 = sh.step(&c, cfg);
                    run.evals += 1;
                    if s2.outcome != so.outcome || sh.arena != main.arena {
                        fails.push(c16(
                            "continuation-diverges",
                            format!("{}: original -> {}, round-tripped copy #{k} -> {}; arenas equal afterwards: {}", so.desc, so.outcome, s2.outcome, sh.arena == main.arena),
                        ));
                        break;
                    }
                    if !s2.failures.is_empty() {
                        let mut f = s2.failures[0].clone();
                        f.props.push("C16");
                        f.msg = format!("on the round-tripped copy: {}", f.msg);
                        fails.push(f);
                        break;
                    }
                }
                if !fails.is_empty() {
                    run.fail = Some((i, fails, None));
                    break;
                }
            }
        }
    }
    run.digest = splitmix(dig ^ table_digest(&main));
    run
}

/// Evaluate one generated case under the property's profile.
pub fn eval_case<P: Payload>(ops: &[Op], prof: &Profile, cfg: &StepCfg, record: bool) -> CaseRun {
    watch::begin(watch::me(), ops, prof.name);
    let r = eval_case_inner::<P>(ops, prof, cfg, record);
    watch::end(watch::me());
    r
}

fn eval_case_inner<P: Payload>(ops: &[Op], prof: &Profile, cfg: &StepCfg, record: bool) -> CaseRun {
    if prof.name == "C13" {
        c13_eval::<P>(ops, prof, cfg, record)
    } else if prof.name == "C16" {
        c16_eval::<P>(ops, prof, cfg, record)
    } else {
        run_history::<P>(ops, prof, cfg, record)
    }
}

pub fn case_strategy(prof: &Profile) -> proptest::strategy::BoxedStrategy<Vec<Op>> {
    use proptest::prelude::*;
    if prof.name == "C13" {
        let third = Profile { max_ops: (prof.max_ops / 3).max(4), w_probe: 0, ..prof.clone() };
        let h = || history_strategy(&third);
        (prop_oneof![8 => 0u32..40, 1 => 1000u32..5000, 1 => 60_000u32..70_000], h(), h(), h())
            .prop_map(|(cap, p, a, b)| {
                let mut v = vec![Op::Reserve { k: cap }];
                v.extend(p);
                v.push(Op::Probe { seed: MARK_A });
                v.extend(a);
                v.push(Op::Probe { seed: MARK_B });
                v.extend(b);
                v
            })
            .boxed()
    } else {
        history_strategy(prof)
    }
}

// ------------------------------------------------------------------------------------------------
// statistics

#[derive(Default)]
pub struct Stats {
    pub cases: u64,
    pub steps: u64,
    pub evals: u64,
    pub skipped: u64,
    pub excluded: u64,
    pub classes: BTreeMap<String, u64>,
    pub nt: BTreeMap<&'static str, HashSet<u64>>,
    pub other_prop_failures: BTreeMap<String, u64>,
    pub feat: BTreeMap<&'static str, u64>,
    pub live_hist: BTreeMap<usize, u64>,
    pub depth_hist: BTreeMap<usize, u64>,
    pub samples: Vec<Vec<String>>,
    pub digests: Vec<(u64, u64)>,
    /// wall time of the slowest single case (ms) — the hang watchdog's margin is judged against this
    pub slowest_case_ms: u64,
}

impl Stats {
    pub fn absorb(&mut self, run: &CaseRun, idx: u64, want_sample: bool) {
        self.cases += 1;
        self.steps += run.steps;
        self.evals += run.evals;
        self.skipped += run.skipped;
        self.excluded += run.excluded;
        for c in &run.classes {
            *self.classes.entry(c.clone()).or_default() += 1;
        }
        for (p, k) in &run.nt {
            self.nt.entry(p).or_default().insert(*k);
        }
        let f = &run.features;
        for (name, on) in [("slot_reuse", f.slot_reuse), ("top_chain>=2", f.top_chain), ("failed_call_then_more", f.failed_then_more), ("remove_subtree>=3", f.subtree3), ("same_list_move", f.same_list_move)] {
            if on {
                *self.feat.entry(name).or_default() += 1;
            }
        }
        *self.live_hist.entry(f.max_live.min(48) / 4 * 4).or_default() += 1;
        *self.depth_hist.entry(f.max_depth.min(16)).or_default() += 1;
        self.digests.push((idx, run.digest));
        if want_sample && !run.trace.is_empty() && self.samples.len() < 6 {
            let mut t = run.trace.clone();
            if t.len() > 30 {
                t.truncate(30);
                t.push("…".into());
            }
            self.samples.push(t);
        }
    }

    pub fn merge(&mut self, o: Stats) {
        self.cases += o.cases;
        self.steps += o.steps;
        self.evals += o.evals;
        self.skipped += o.skipped;
        self.excluded += o.excluded;
        for (k, v) in o.classes {
            *self.classes.entry(k).or_default() += v;
        }
        for (k, v) in o.nt {
            self.nt.entry(k).or_default().extend(v);
        }
        for (k, v) in o.other_prop_failures {
            *self.other_prop_failures.entry(k).or_default() += v;
        }
        for (k, v) in o.feat {
            *self.feat.entry(k).or_default() += v;
        }
        for (k, v) in o.live_hist {
            *self.live_hist.entry(k).or_default() += v;
        }
        for (k, v) in o.depth_hist {
            *self.depth_hist.entry(k).or_default() += v;
        }
        for s in o.samples {
            if self.samples.len() < 8 {
                self.samples.push(s);
            }
        }
        self.digests.extend(o.digests);
        self.slowest_case_ms = self.slowest_case_ms.max(o.slowest_case_ms);
    }
}

// ------------------------------------------------------------------------------------------------
// violations and replay files

#[derive(Clone, Debug, Serialize, Deserialize)]
pub struct ReplayFile {
    pub property: String,
    pub profile: String,
    pub sig: String,
    pub message: String,
    pub found_by: String,
    pub seed: u64,
    pub build: String,
    pub ops: Vec<Op>,
    pub trace: Vec<String>,
    #[serde(default)]
    pub note: String,
}

#[derive(Clone, Debug)]
pub struct Violation {
    pub prop: String,
    pub sig: String,
    pub msg: String,
    pub ops: Vec<Op>,
    pub found_by: String,
}

/// Does `ops` fail for `prop` (with signature `sig`, if given)?  Returns the failure if so.
pub fn fails_for<P: Payload>(ops: &[Op], prof: &Profile, cfg: &StepCfg, prop: &str, sig: Option<&str>) -> Option<Failure> {
    let run = eval_case::<P>(ops, prof, cfg, false);
    let (_, fs, _) = run.fail?;
    fs.into_iter().find(|f| f.hits(prop) && sig.map_or(true, |s| f.sig == s))
}

/// Turn a failing run into a self-contained concrete history (probe failures become a plain call).
pub fn concretise_failure(run: &CaseRun) -> Vec<Op> {
    let mut ops = run.concrete.clone();
    if let Some((_, _, Some(fop))) = &run.fail {
        // drop the probe op that found it; append the failing call itself
        if matches!(ops.last(), Some(Op::Probe { .. })) {
            ops.pop();
        }
        ops.push(fop.clone());
    }
    ops
}

/// ddmin-style minimisation on a concrete history: keep a candidate iff it still fails for the
/// same property with the same signature.
pub fn shrink<P: Payload>(mut ops: Vec<Op>, prof: &Profile, cfg: &StepCfg, prop: &str, sig: &str) -> Vec<Op> {
    let t0 = std::time::Instant::now();
    let still = |c: &[Op]| t0.elapsed().as_secs() < 60 && fails_for::<P>(c, prof, cfg, prop, Some(sig)).is_some();
    if !still(&ops) {
        return ops;
    }
    let mut budget = 4000usize;
    // chunk removal
    let mut chunk = (ops.len() / 2).max(1);
    while chunk >= 1 && budget > 0 {
        let mut i = 0;
        let mut progressed = false;
        while i < ops.len() && budget > 0 {
            let hi = (i + chunk).min(ops.len());
            let mut cand = ops.clone();
            cand.drain(i..hi);
            budget -= 1;
            if !cand.is_empty() && still(&cand) {
                ops = cand;
                progressed = true;
            } else {
                i += chunk;
            }
        }
        if chunk == 1 && !progressed {
            break;
        }
        if !progressed {
            chunk /= 2;
        }
    }
    // remove an allocating op and renumber later slot references downwards
    fn renumber(ops: &[Op], from: usize, t: u32) -> Vec<Op> {
        let dec = |s: &Sel| match s {
            Sel::Slot(k) if *k >= t && *k > 0 => Sel::Slot(k - 1),
            Sel::SlotAlt(k) if *k >= t && *k > 0 => Sel::SlotAlt(k - 1),
            o => *o,
        };
        ops.iter()
            .enumerate()
            .map(|(j, op)| {
                if j < from {
                    return op.clone();
                }
                match op {
                    Op::AppendValue { parent, v } => Op::AppendValue { parent: dec(parent), v: *v },
                    Op::Insert { kind, checked, target, node } => Op::Insert { kind: *kind, checked: *checked, target: dec(target), node: dec(node) },
                    Op::Detach { x } => Op::Detach { x: dec(x) },
                    Op::Remove { x } => Op::Remove { x: dec(x) },
                    Op::RemoveSubtree { x } => Op::RemoveSubtree { x: dec(x) },
                    Op::Set { x, v, via } => Op::Set { x: dec(x), v: *v, via: *via },
                    Op::Churn { x, cycles } => Op::Churn { x: dec(x), cycles: *cycles },
                    Op::ChurnTo { x, limit, left } => Op::ChurnTo { x: dec(x), limit: *limit, left: *left },
                    Op::Grow { under, n, shape } => Op::Grow { under: dec(under), n: *n, shape: *shape },
                    o => o.clone(),
                }
            })
            .collect()
    }
    let mut again = true;
    while again && budget > 0 {
        again = false;
        let mut i = 0;
        'outer: while i < ops.len() {
            if matches!(ops[i], Op::New { .. } | Op::AppendValue { .. }) {
                let mut cand0 = ops.clone();
                cand0.remove(i);
                let maxslot = ops.len() as u32;
                for t in 0..=maxslot {
                    if budget == 0 {
                        break 'outer;
                    }
                    budget -= 1;
                    let cand = renumber(&cand0, i, t);
                    if !cand.is_empty() && still(&cand) {
                        ops = cand;
                        again = true;
                        continue 'outer;
                    }
                }
            }
            i += 1;
        }
    }
    // simplify arguments: renumber slots downwards, shrink values and churn cycles
    let mut changed = true;
    while changed && budget > 0 {
        changed = false;
        for i in 0..ops.len() {
            let mut cands: Vec<Op> = Vec::new();
            let lower = |s: &Sel| -> Vec<Sel> {
                match s {
                    Sel::Slot(k) if *k > 0 => vec![Sel::Slot(0), Sel::Slot(k - 1)],
                    _ => vec![],
                }
            };
            match &ops[i] {
                Op::New { v } if *v != 0 => cands.push(Op::New { v: 0 }),
                Op::AppendValue { parent, v } => {
                    if *v != 0 {
                        cands.push(Op::AppendValue { parent: *parent, v: 0 });
                    }
                    for p in lower(parent) {
                        cands.push(Op::AppendValue { parent: p, v: *v });
                    }
                    cands.push(Op::New { v: *v });
                }
                Op::Insert { kind, checked, target, node } => {
                    if !*checked {
                        cands.push(Op::Insert { kind: *kind, checked: true, target: *target, node: *node });
                    }
                    for t in lower(target) {
                        cands.push(Op::Insert { kind: *kind, checked: *checked, target: t, node: *node });
                    }
                    for n in lower(node) {
                        cands.push(Op::Insert { kind: *kind, checked: *checked, target: *target, node: n });
                    }
                    if *kind != Kind::Append && i + 1 != ops.len() {
                        cands.push(Op::Insert { kind: Kind::Append, checked: *checked, target: *target, node: *node });
                    }
                }
                Op::Churn { x, cycles } if *cycles > 1 => {
                    cands.push(Op::Churn { x: *x, cycles: cycles / 2 });
                    cands.push(Op::Churn { x: *x, cycles: cycles - 1 });
                }
                Op::Grow { under, n, shape } if *n > 1 => {
                    cands.push(Op::Grow { under: *under, n: n / 2, shape: *shape });
                    cands.push(Op::Grow { under: *under, n: n - 1, shape: *shape });
                    if *shape != 0 {
                        cands.push(Op::Grow { under: *under, n: *n, shape: 0 });
                    }
                }
                Op::RemoveSubtree { x } => cands.push(Op::Remove { x: *x }),
                Op::Set { x, v, via } if *v != 0 => cands.push(Op::Set { x: *x, v: 0, via: *via }),
                _ => {}
            }
            for c in cands {
                if budget == 0 {
                    break;
                }
                budget -= 1;
                let mut cand = ops.clone();
                cand[i] = c;
                if still(&cand) {
                    ops = cand;
                    changed = true;
                    break;
                }
            }
        }
        // single removals again after simplification
        let mut i = 0;
        while i < ops.len() && budget > 0 {
            let mut cand = ops.clone();
            cand.remove(i);
            budget -= 1;
            if !cand.is_empty() && still(&cand) {
                ops = cand;
                changed = true;
            } else {
                i += 1;
            }
        }
    }
    ops
}

pub fn make_replay<P: Payload>(v: &Violation, prof: &Profile, cfg: &StepCfg, seed: u64, build: &str) -> ReplayFile {
    let run = eval_case::<P>(&v.ops, prof, cfg, true);
    let mut trace = run.trace.clone();
    if let Some((_, fs, _)) = &run.fail {
        for f in fs {
            trace.push(format!("FAIL [{}] {}: {}", f.props.join(","), f.sig, f.msg));
        }
    }
    ReplayFile {
        property: v.prop.clone(),
        profile: prof.name.to_string(),
        sig: v.sig.clone(),
        message: v.msg.clone(),
        found_by: v.found_by.clone(),
        seed,
        build: build.to_string(),
        ops: v.ops.clone(),
        trace,
        note: String::new(),
    }
}

// ------------------------------------------------------------------------------------------------
// random engine (proptest)

pub struct RandomOut {
    pub stats: Stats,
    pub violation: Option<Violation>,
}

/// One worker: `cases` generated histories, shrinking on the first failure that hits `prop`.
pub fn random_worker<P: Payload>(prop: &str, prof: &Profile, cfg: &StepCfg, seed: u64, worker: u64, cases: u64, stop: &std::sync::atomic::AtomicBool) -> RandomOut {
    use std::sync::atomic::Ordering;
    let mut seed_bytes = [0u8; 32];
    let mut s = splitmix(seed ^ splitmix(worker.wrapping_mul(0xA24B_AED4_963E_E407)));
    for ch in seed_bytes.chunks_mut(8) {
        s = splitmix(s);
        ch.copy_from_slice(&s.to_le_bytes());
    }
    let rng = TestRng::from_seed(RngAlgorithm::ChaCha, &seed_bytes);
    let config = Config { cases: 1, failure_persistence: None, max_shrink_iters: 3000, verbose: 0, ..Config::default() };
    let mut runner = TestRunner::new_with_rng(config, rng);
    let strat = case_strategy(prof);
    let stats = RefCell::new(Stats::default());
    let target_sig: RefCell<Option<String>> = RefCell::new(None);
    let mut violation = None;
    for i in 0..cases {
        if stop.load(Ordering::Relaxed) {
            break;
        }
        let tree = match strat.new_tree(&mut runner) {
            Ok(t) => t,
            Err(_) => continue,
        };
        // first evaluation counts for statistics; shrinking re-runs do not
        let first = RefCell::new(true);
        let fail_at: RefCell<Option<std::time::Instant>> = RefCell::new(None);
        let res = runner.run_one(tree, |ops: Vec<Op>| {
            let is_first = first.replace(false);
            // shrinking is bounded by time as well (big-arena cases take seconds each): past the
            // deadline every further simplification "passes", so proptest keeps its current best
            if let Some(t) = *fail_at.borrow() {
                if t.elapsed().as_secs() >= 45 {
                    return Ok(());
                }
            }
            let t_case = std::time::Instant::now();
            let run = eval_case::<P>(&ops, prof, cfg, is_first && i % 97 == 0);
            if is_first {
                let nontrivial = run.nt.iter().any(|(p, _)| *p == prop);
                let ms = t_case.elapsed().as_millis() as u64;
                let mut st = stats.borrow_mut();
                st.slowest_case_ms = st.slowest_case_ms.max(ms);
                drop(st);
                stats.borrow_mut().absorb(&run, worker << 32 | i, nontrivial);
            }
            if let Some((_, fs, _)) = &run.fail {
                let want = target_sig.borrow().clone();
                if let Some(f) = fs.iter().find(|f| f.hits(prop) && want.as_ref().map_or(true, |w| &f.sig == w)) {
                    if want.is_none() {
                        *target_sig.borrow_mut() = Some(f.sig.clone());
                    }
                    if fail_at.borrow().is_none() {
                        *fail_at.borrow_mut() = Some(std::time::Instant::now());
                    }
                    return Err(TestCaseError::fail(f.sig.clone()));
                }
                if is_first {
                    for f in fs {
                        *stats.borrow_mut().other_prop_failures.entry(format!("{}:{}", f.props.join("+"), f.sig)).or_default() += 1;
                    }
                }
            }
            Ok(())
        });
        if let Err(TestError::Fail(_, ops)) = res {
            stop.store(true, Ordering::Relaxed);
            let sig = target_sig.borrow().clone().unwrap_or_default();
            // concretise + ddmin
            let run = eval_case::<P>(&ops, prof, cfg, false);
            let mut conc = if prof.name == "C13" || prof.name == "C16" { if run.concrete.is_empty() { ops.clone() } else { run.concrete.clone() } } else { concretise_failure(&run) };
            if fails_for::<P>(&conc, prof, cfg, prop, Some(&sig)).is_none() {
                conc = ops.clone(); // keep the generator-level case if concretisation changed behaviour
            }
            let min = shrink::<P>(conc, prof, cfg, prop, &sig);
            let f = fails_for::<P>(&min, prof, cfg, prop, Some(&sig));
            violation = Some(Violation { prop: prop.to_string(), sig, msg: f.map(|f| f.msg).unwrap_or_default(), ops: min, found_by: format!("random worker {worker} case {i}") });
            break;
        }
    }
    RandomOut { stats: stats.into_inner(), violation }
}

/// Regenerate case `idx` of worker `worker` (for digest disagreements between builds).
pub fn regenerate_case(prof: &Profile, seed: u64, worker: u64, idx: u64) -> Option<Vec<Op>> {
    let mut seed_bytes = [0u8; 32];
    let mut s = splitmix(seed ^ splitmix(worker.wrapping_mul(0xA24B_AED4_963E_E407)));
    for ch in seed_bytes.chunks_mut(8) {
        s = splitmix(s);
        ch.copy_from_slice(&s.to_le_bytes());
    }
    let rng = TestRng::from_seed(RngAlgorithm::ChaCha, &seed_bytes);
    let config = Config { cases: 1, failure_persistence: None, ..Config::default() };
    let mut runner = TestRunner::new_with_rng(config, rng);
    let strat = case_strategy(prof);
    for i in 0..=idx {
        let tree = strat.new_tree(&mut runner).ok()?;
        let v = tree.current();
        let _ = runner.run_one(tree, |_| Ok(()));
        if i == idx {
            return Some(v);
        }
    }
    None
}

// ------------------------------------------------------------------------------------------------
// exhaustive enumeration

/// Every call that is in the input domain at this state (over at most `k` slots).
pub fn alphabet<P: Payload>(w: &World<P>, k: usize, with_payload_ops: bool) -> Vec<Op> {
    let n = w.m.n.len();
    let mut ops = Vec::new();
    let has_free = w.m.n.iter().any(|m| !m.live);
    if n < k || has_free {
        ops.push(Op::New { v: 1 });
    }
    for s in 0..n {
        let sel = Sel::Slot(s as u32);
        if n < k || has_free {
            ops.push(Op::AppendValue { parent: sel, v: 2 });
        }
        if w.m.n[s].live {
            ops.push(Op::Detach { x: sel });
            ops.push(Op::Remove { x: sel });
            ops.push(Op::RemoveSubtree { x: sel });
            if with_payload_ops {
                ops.push(Op::Set { x: sel, v: 9, via: (s % 4) as u8 });
            }
        }
        for t in 0..n {
            for kind in Kind::ALL {
                for checked in [true, false] {
                    ops.push(Op::Insert { kind, checked, target: Sel::Slot(s as u32), node: Sel::Slot(t as u32) });
                }
            }
        }
    }
    ops
}

pub struct EnumOut {
    pub stats: Stats,
    pub violation: Option<Violation>,
    pub histories: u64,
}

/// Depth-first enumeration of every history of at most `depth` further calls from `w`.
/// `deep` checks (non-probe ones) run at every visited state.
#[allow(clippy::too_many_arguments)]
pub fn dfs<P: Payload>(w: &World<P>, path: &mut Vec<Op>, depth: usize, k: usize, prop: &str, prof: &Profile, cfg: &StepCfg, out: &mut EnumOut, label: &str) {
    if out.violation.is_some() {
        return;
    }
    for op in alphabet(w, k, prof.w_set > 0) {
        let mut w2 = w.clone();
        {
            let mut cur = path.clone();
            cur.push(op.clone());
            watch::begin(watch::me(), &cur, prof.name);
        }
        let so = w2.step(&op, cfg);
        if so.skipped {
            continue;
        }
        out.stats.steps += 1;
        out.stats.evals += 1;
        *out.stats.classes.entry(so.class.clone()).or_default() += 1;
        for (p, key) in &so.nt {
            out.stats.nt.entry(p).or_default().insert(*key);
        }
        path.push(op.clone());
        out.histories += 1;
        let mut fails = so.failures;
        if fails.is_empty() && (prof.deep.traversals || prof.deep.dei || prof.deep.lookups || prof.deep.drain) {
            let dc = DeepCfg { pairs: false, unary: false, ..prof.deep.clone() };
            let d = deep_at(&mut w2, out.histories, &dc, cfg);
            out.stats.evals += d.evals;
            for (p, key) in &d.nt {
                out.stats.nt.entry(p).or_default().insert(*key);
            }
            if !d.failures.is_empty() {
                fails = d.failures;
                path.push(Op::Probe { seed: out.histories });
            }
        }
        if !fails.is_empty() {
            if let Some(f) = fails.iter().find(|f| f.hits(prop)) {
                out.violation = Some(Violation { prop: prop.to_string(), sig: f.sig.clone(), msg: f.msg.clone(), ops: path.clone(), found_by: label.to_string() });
                return;
            }
            for f in &fails {
                *out.stats.other_prop_failures.entry(format!("{}:{}", f.props.join("+"), f.sig)).or_default() += 1;
            }
            while matches!(path.last(), Some(Op::Probe { .. })) {
                path.pop();
            }
            if !w2.resync() {
                path.pop();
                continue; // the arena cannot serve as ground truth any more: do not extend this history
            }
        }
        if depth > 1 {
            dfs(&w2, path, depth - 1, k, prop, prof, cfg, out, label);
            if out.violation.is_some() {
                return;
            }
        }
        path.pop();
    }
}

/// all ordered forests with `n` nodes as nested child lists; node numbering is pre-order
fn forests(n: usize) -> Vec<Vec<Tree>> {
    // forest(n) = [] if n == 0, else first tree with k nodes (1..=n) followed by forest(n-k)
    if n == 0 {
        return vec![vec![]];
    }
    let mut out = Vec::new();
    for k in 1..=n {
        for kids in forests(k - 1) {
            for rest in forests(n - k) {
                let mut f = vec![Tree { kids: kids.clone() }];
                f.extend(rest.iter().cloned());
                out.push(f);
            }
        }
    }
    out
}

#[derive(Clone, Debug)]
pub struct Tree {
    kids: Vec<Tree>,
}

/// Build scripts for every forest shape with exactly `n` nodes: every ordered forest x every way to
/// cut the top-level sequence into chains x {plain, one removed-not-recycled slot, slot 0 recycled}.
pub fn shape_scripts(n: usize) -> Vec<Vec<Op>> {
    let mut scripts = Vec::new();
    for f in forests(n) {
        let t = f.len();
        for cuts in 0..(1u32 << (t.saturating_sub(1))) {
            for variant in 0..3 {
                let mut ops = Vec::new();
                let mut next_slot: u32 = 0;
                if variant == 2 {
                    // slot 0 gets recycled by the first allocation below
                    ops.push(Op::New { v: 0 });
                    ops.push(Op::Remove { x: Sel::Slot(0) });
                }
                fn build(t: &Tree, parent: Option<u32>, next_slot: &mut u32, ops: &mut Vec<Op>) -> u32 {
                    let me = *next_slot;
                    *next_slot += 1;
                    match parent {
                        None => ops.push(Op::New { v: me as u32 }),
                        Some(p) => ops.push(Op::AppendValue { parent: Sel::Slot(p), v: me as u32 }),
                    }
                    for k in &t.kids {
                        build(k, Some(me), next_slot, ops);
                    }
                    me
                }
                let mut prev_root: Option<u32> = None;
                for (i, tr) in f.iter().enumerate() {
                    let r = build(tr, None, &mut next_slot, &mut ops);
                    if i > 0 && (cuts >> (i - 1)) & 1 == 1 {
                        ops.push(Op::Insert { kind: Kind::After, checked: true, target: Sel::Slot(prev_root.unwrap()), node: Sel::Slot(r) });
                    }
                    prev_root = Some(r);
                }
                if variant == 1 {
                    ops.push(Op::New { v: 99 });
                    ops.push(Op::Remove { x: Sel::Slot(next_slot) });
                }
                scripts.push(ops);
            }
        }
    }
    scripts
}

/// E'(depth, n): every history of <= depth calls from every shape with exactly n nodes.
pub fn enumerate_from_shapes<P: Payload>(n: usize, depth: usize, prop: &str, prof: &Profile, cfg: &StepCfg, shard: usize, shards: usize) -> EnumOut {
    let mut out = EnumOut { stats: Stats::default(), violation: None, histories: 0 };
    let flat = Profile { deep: DeepCfg { at_end: false, ..prof.deep.clone() }, ..prof.clone() };
    for (i, script) in shape_scripts(n).into_iter().enumerate() {
        if i % shards != shard {
            continue;
        }
        let mut w: World<P> = World::new();
        let run = run_history_on(&mut w, &script, &flat, cfg, false);
        out.stats.cases += 1;
        if let Some((_, fs, _)) = run.fail {
            // building a plain shape failed: that is a finding in its own right
            if let Some(f) = fs.iter().find(|f| f.hits(prop)) {
                out.violation = Some(Violation { prop: prop.to_string(), sig: f.sig.clone(), msg: f.msg.clone(), ops: script.clone(), found_by: format!("shape build n={n}") });
                return out;
            }
            continue;
        }
        let probe_world = w.clone();
        drop(w);
        let mut path = script.clone();
        let k = probe_world.m.n.len() + 1;
        dfs(&probe_world, &mut path, depth, k, prop, prof, cfg, &mut out, &format!("E'({depth},{n}) shape #{i}"));
        if out.violation.is_some() {
            return out;
        }
    }
    out
}

/// E(d,k): every history of <= d calls over <= k slots from the empty arena.  Sharded over the
/// second-level prefixes.
pub fn enumerate_from_empty<P: Payload>(d: usize, k: usize, prop: &str, prof: &Profile, cfg: &StepCfg, shard: usize, shards: usize) -> EnumOut {
    let mut out = EnumOut { stats: Stats::default(), violation: None, histories: 0 };
    let w0: World<P> = World::new();
    let w0 = w0.clone(); // probe-style world (no drop tracking / id ledger)
    // prefixes of length 2 (or 1 if d == 1)
    let mut prefixes: Vec<Vec<Op>> = Vec::new();
    for a in alphabet(&w0, k, false) {
        let mut w1 = w0.clone();
        if w1.step(&a, cfg).skipped {
            continue;
        }
        if d == 1 {
            prefixes.push(vec![a]);
            continue;
        }
        for b in alphabet(&w1, k, prof.w_set > 0) {
            prefixes.push(vec![a.clone(), b]);
        }
    }
    for (i, pre) in prefixes.into_iter().enumerate() {
        if i % shards != shard {
            continue;
        }
        let mut w = w0.clone();
        let mut ok = true;
        let mut path = Vec::new();
        for (j, op) in pre.iter().enumerate() {
            let so = w.step(op, cfg);
            if so.skipped {
                ok = false;
                break;
            }
            path.push(op.clone());
            // count only the last op of the prefix here (the first is shared between prefixes)
            if j + 1 == pre.len() {
                out.stats.steps += 1;
                out.stats.evals += 1;
                out.histories += 1;
                for (p, key) in &so.nt {
                    out.stats.nt.entry(p).or_default().insert(*key);
                }
            }
            if !so.failures.is_empty() {
                if let Some(f) = so.failures.iter().find(|f| f.hits(prop)) {
                    out.violation = Some(Violation { prop: prop.to_string(), sig: f.sig.clone(), msg: f.msg.clone(), ops: path.clone(), found_by: format!("E({d},{k})") });
                    return out;
                }
                ok = false;
                break;
            }
        }
        if !ok || d <= pre.len() {
            continue;
        }
        dfs(&w, &mut path, d - pre.len(), k, prop, prof, cfg, &mut out, &format!("E({d},{k})"));
        if out.violation.is_some() {
            return out;
        }
    }
    out
}
