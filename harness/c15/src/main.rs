//! C15 — `tree!` builds exactly the tree that is written.
//!
//! A proc macro can only be exercised by compiling programs, so the generated inputs are PROGRAMS:
//! this binary generates tree literals from a grammar (proptest), writes one crate with one
//! function per literal plus — as plain data — the forest and the side-effect log the literal must
//! produce, builds that crate against /repo (one `cargo build` per batch), runs it and collects
//! the literals whose observed forest / log / returned id differ.
//!
//!   itv-c15 run --tier quick|thorough --seed N --out partial.json
//!   itv-c15 replay --file replay.json
use proptest::prelude::*;
use proptest::strategy::ValueTree;
use proptest::test_runner::{Config, RngAlgorithm, TestRng, TestRunner};
use serde::{Deserialize, Serialize};
use serde_json::json;
use std::collections::HashSet;
use std::fmt::Write as _;
use std::path::{Path, PathBuf};
use std::process::Command;
use std::time::Instant;

#[derive(Clone, Debug, Serialize, Deserialize, PartialEq)]
struct NodeLit {
    /// syntactic shape of the payload expression
    form: u8,
    /// childless node written as `expr => {}`
    empty_braces: bool,
    /// trailing comma after the last child
    trailing: bool,
    kids: Vec<NodeLit>,
}

#[derive(Clone, Debug, Serialize, Deserialize, PartialEq)]
struct Lit {
    arena_form: u8,
    /// None: the root is a value (new node); Some(n): the root is an existing NodeId with n children
    root_existing: Option<u8>,
    root_form: u8,
    /// `root => { ... }` present (always true when there are children)
    arrow: bool,
    trailing_inner: bool,
    /// trailing comma after the whole literal
    trailing_outer: bool,
    /// macro delimiter: 0 `()`, 1 `{}`, 2 `[]`
    delim: u8,
    /// filler nodes allocated before (shifts slot numbers)
    filler: u8,
    kids: Vec<NodeLit>,
}

#[derive(Serialize, Deserialize)]
struct Replay {
    property: String,
    sig: String,
    message: String,
    seed: u64,
    literal: Lit,
    source: String,
}

const NFORMS: u8 = 15;

fn node_strategy(depth: u32, width: usize) -> BoxedStrategy<NodeLit> {
    let leaf = (0..NFORMS, any::<bool>(), any::<bool>()).prop_map(|(form, empty_braces, trailing)| NodeLit { form, empty_braces: empty_braces && form % 3 == 0, trailing, kids: vec![] });
    leaf.prop_recursive(depth, 64, width as u32, move |inner| {
        (0..NFORMS, any::<bool>(), proptest::collection::vec(inner, 0..=width)).prop_map(|(form, trailing, kids)| NodeLit { form, empty_braces: kids.is_empty() && trailing, trailing, kids })
    })
    .boxed()
}

fn lit_strategy(depth: u32, width: usize) -> BoxedStrategy<Lit> {
    (
        (0u8..4, prop_oneof![3 => Just(None), 2 => (0u8..4).prop_map(Some)], 0u8..6, any::<bool>()),
        (any::<bool>(), any::<bool>(), 0u8..3, 0u8..4),
        proptest::collection::vec(node_strategy(depth, width), 0..=width),
    )
        .prop_map(|((arena_form, root_existing, root_form, arrow), (trailing_inner, trailing_outer, delim, filler), kids)| Lit {
            arena_form,
            root_existing,
            root_form,
            arrow: arrow || !kids.is_empty(),
            trailing_inner,
            trailing_outer,
            delim,
            filler,
            kids,
        })
        .boxed()
}

/// "spine" literals: one long nesting (12 … 40 levels) with a following sibling at a generated subset
/// of levels — after the deepest node the expansion has to climb back in several stages
fn spine_strategy() -> BoxedStrategy<Lit> {
    (
        proptest::collection::vec((0..NFORMS, proptest::bool::weighted(0.3), any::<bool>(), 0..NFORMS), 12..=40),
        (0u8..4, prop_oneof![3 => Just(None), 1 => (0u8..3).prop_map(Some)], 0u8..6, any::<bool>(), 0u8..3),
    )
        .prop_map(|(levels, (arena_form, root_existing, root_form, trailing_outer, delim))| {
            let mut cur: Option<NodeLit> = None;
            let mut sib_after_cur = false;
            let mut sib_form = 0;
            for (form, sib, trailing, sform) in levels.into_iter().rev() {
                let mut kids = Vec::new();
                if let Some(c) = cur.take() {
                    kids.push(c);
                    if sib_after_cur {
                        kids.push(NodeLit { form: sib_form, empty_braces: false, trailing: false, kids: vec![] });
                    }
                }
                cur = Some(NodeLit { form, empty_braces: false, trailing, kids });
                sib_after_cur = sib;
                sib_form = sform;
            }
            let mut kids = vec![cur.unwrap()];
            kids.push(NodeLit { form: 0, empty_braces: false, trailing: false, kids: vec![] });
            Lit { arena_form, root_existing, root_form, arrow: true, trailing_inner: false, trailing_outer, delim, filler: 0, kids }
        })
        .boxed()
}

/// deep chains and wide fans: shapes the recursive generator rarely reaches
fn special_lits() -> Vec<Lit> {
    let mut v = Vec::new();
    let base = |kids: Vec<NodeLit>| Lit { arena_form: 1, root_existing: None, root_form: 0, arrow: true, trailing_inner: false, trailing_outer: false, delim: 0, filler: 0, kids };
    // chain of depth 30
    let mut chain = NodeLit { form: 0, empty_braces: false, trailing: false, kids: vec![] };
    for d in 0..29 {
        chain = NodeLit { form: (d % NFORMS as usize) as u8, empty_braces: false, trailing: d % 2 == 0, kids: vec![chain] };
    }
    v.push(base(vec![chain.clone()]));
    // chain followed by a sibling at every level (every nesting is closed and followed by an append)
    let mut zig = NodeLit { form: 1, empty_braces: false, trailing: false, kids: vec![] };
    for d in 0..14 {
        let sib = NodeLit { form: (d % 5) as u8, empty_braces: d % 3 == 0, trailing: false, kids: vec![] };
        zig = NodeLit { form: 0, empty_braces: false, trailing: false, kids: vec![zig, sib] };
    }
    v.push(base(vec![zig.clone(), NodeLit { form: 2, empty_braces: false, trailing: false, kids: vec![] }]));
    let mut l = base(vec![zig]);
    l.root_existing = Some(2);
    l.root_form = 1;
    v.push(l);
    // fan of 40
    let fan: Vec<NodeLit> = (0..40).map(|i| NodeLit { form: (i % NFORMS as usize) as u8, empty_braces: i % 7 == 0, trailing: false, kids: if i % 9 == 4 { vec![NodeLit { form: 0, empty_braces: false, trailing: true, kids: vec![] }] } else { vec![] } }).collect();
    v.push(base(fan));
    // nothing but a root, all spellings
    for (arrow, to, re) in [(false, false, None), (false, true, None), (true, false, None), (true, true, Some(0u8)), (false, false, Some(3u8)), (true, true, None)] {
        let mut l = base(vec![]);
        l.arrow = arrow;
        l.trailing_outer = to;
        l.root_existing = re;
        v.push(l);
    }
    // last child nested deeply (trailing Parent run must be dropped, not executed)
    let deep_last = NodeLit { form: 0, empty_braces: false, trailing: false, kids: vec![NodeLit { form: 3, empty_braces: false, trailing: false, kids: vec![NodeLit { form: 4, empty_braces: false, trailing: false, kids: vec![] }] }] };
    v.push(base(vec![NodeLit { form: 5, empty_braces: false, trailing: false, kids: vec![] }, deep_last]));
    v
}

// ------------------------------------------------------------------------------------------------
// rendering a literal into Rust source + expected data

struct Render {
    src: String,
    next_k: u32,
    log: Vec<i64>,
}

fn expr(form: u8, k: u32) -> String {
    let e = format!("ev(&log, {k})");
    match form % NFORMS {
        0 => e,
        1 => format!("{{ {e} }}"),
        2 => format!("({e})"),
        3 => format!("{e} + 0"),
        4 => format!("match {e} {{ x if x > 0 => {{ x }} _ => 0 }}"),
        5 => format!("if {e} > 0 {{ {k} }} else {{ 0 }}"),
        6 => format!("Some({e}).map(|x| x).unwrap()"),
        7 => format!("[{e}][0]"),
        8 => format!("{{ let v = {e}; v }}"),
        9 => format!("std::convert::identity::<u32>({e})"),
        10 => format!("loop {{ break {e}; }}"),
        11 => format!("(|| {e})()"),
        // expressions that contain commas of their own
        12 => format!("std::cmp::max({e}, 0)"),
        13 => format!("({e}, 0u8).0"),
        _ => format!("[0, {e}][1]"),
    }
}

/// returns the expected-forest constructor text for this node
fn render_node(n: &NodeLit, r: &mut Render, indent: usize) -> String {
    r.next_k += 1;
    let k = r.next_k;
    r.log.push(k as i64);
    let pad = "    ".repeat(indent);
    let _ = write!(r.src, "{pad}{}", expr(n.form, k));
    let mut kids_exp = Vec::new();
    if !n.kids.is_empty() {
        r.src.push_str(" => {\n");
        for (i, c) in n.kids.iter().enumerate() {
            kids_exp.push(render_node(c, r, indent + 1));
            if i + 1 < n.kids.len() || n.trailing {
                r.src.push(',');
            }
            r.src.push('\n');
        }
        let _ = write!(r.src, "{pad}}}");
    } else if n.empty_braces {
        r.src.push_str(" => {}");
    }
    format!("x({k}, vec![{}])", kids_exp.join(", "))
}

fn count_nodes(n: &NodeLit) -> usize {
    1 + n.kids.iter().map(count_nodes).sum::<usize>()
}
fn depth_of(n: &NodeLit) -> usize {
    1 + n.kids.iter().map(depth_of).max().unwrap_or(0)
}

/// one test function for the literal; `name` is the function name
fn render_lit(l: &Lit, name: &str) -> (String, String) {
    let mut r = Render { src: String::new(), next_k: 0, log: Vec::new() };
    let mut f = String::new();
    let _ = writeln!(f, "fn {name}(res: &mut Vec<String>) {{");
    let _ = writeln!(f, "    let log: Log = Default::default();");
    let _ = writeln!(f, "    let mut arena: Arena<u32> = Arena::new();");
    for i in 0..l.filler {
        let _ = writeln!(f, "    let _f{i} = arena.new_node({});", 8000 + i as u32);
    }
    let mut pre = Vec::new();
    if let Some(n) = l.root_existing {
        let _ = writeln!(f, "    let top = arena.new_node(7001);");
        let _ = writeln!(f, "    let r = top.append_value(7000, &mut arena);");
        let _ = writeln!(f, "    top.append_value(7002, &mut arena);");
        for i in 0..n {
            let _ = writeln!(f, "    r.append_value({}, &mut arena);", 9000 + i as u32);
            pre.push(format!("x({}, vec![])", 9000 + i as u32));
        }
    }
    if l.arena_form % 4 == 3 {
        let _ = writeln!(f, "    let aref = &mut arena;");
    }
    let _ = writeln!(f, "    let count_before = {};", if l.arena_form % 4 == 3 { "aref.count()" } else { "arena.count()" });
    // ---- the literal
    let arena_e = match l.arena_form % 4 {
        0 => "&mut arena".to_string(),
        1 => {
            r.log.push(-1);
            "{ log.borrow_mut().push(-1); &mut arena }".to_string()
        }
        2 => {
            r.log.push(-1);
            "arena_of(&log, &mut arena)".to_string()
        }
        _ => "aref".to_string(),
    };
    let (root_e, root_val): (String, u32) = match l.root_existing {
        Some(_) => match l.root_form % 3 {
            0 => {
                r.log.push(-2);
                ("root_id(&log, r)".to_string(), 7000)
            }
            1 => {
                r.log.push(-2);
                ("{ root_id(&log, r) }".to_string(), 7000)
            }
            _ => ("r".to_string(), 7000),
        },
        None => {
            r.next_k += 1;
            let k = r.next_k;
            r.log.push(k as i64);
            (expr(l.root_form, k), k)
        }
    };
    let (open, close) = match l.delim % 3 {
        0 => ('(', ')'),
        1 => ('{', '}'),
        _ => ('[', ']'),
    };
    let _ = write!(r.src, "tree!{open}\n        {arena_e},\n        {root_e}");
    let mut kids_exp = pre.clone();
    if l.arrow || !l.kids.is_empty() {
        r.src.push_str(" => {\n");
        for (i, c) in l.kids.iter().enumerate() {
            kids_exp.push(render_node(c, &mut r, 3));
            if i + 1 < l.kids.len() || l.trailing_inner {
                r.src.push(',');
            }
            r.src.push('\n');
        }
        r.src.push_str("        }");
    }
    if l.trailing_outer {
        r.src.push(',');
    }
    let _ = write!(r.src, "\n    {close}");
    let lit_src = r.src.clone();
    let _ = writeln!(f, "    let got: NodeId = {lit_src};");
    let written = l.kids.iter().map(count_nodes).sum::<usize>() + if l.root_existing.is_none() { 1 } else { 0 };
    let _ = writeln!(f, "    let expected = x({root_val}, vec![{}]);", kids_exp.join(", "));
    let _ = writeln!(f, "    let want_log: Vec<i64> = vec![{}];", r.log.iter().map(|v| v.to_string()).collect::<Vec<_>>().join(", "));
    let given = if l.root_existing.is_some() { "Some(r)" } else { "None" };
    let _ = writeln!(f, "    check(\"{name}\", &arena, got, {given}, count_before, {written}, &expected, &log, &want_log, res);");
    let _ = writeln!(f, "}}");
    (f, lit_src)
}

const PRELUDE: &str = r#"// generated by itv-c15 — do not edit
#![allow(unused_parens, unused_braces, unused_mut, unused_variables, clippy::all)]
use indextree::{macros::tree, Arena, NodeId};
use std::cell::RefCell;
type Log = RefCell<Vec<i64>>;
fn ev(log: &Log, k: u32) -> u32 { log.borrow_mut().push(k as i64); k }
fn root_id(log: &Log, id: NodeId) -> NodeId { log.borrow_mut().push(-2); id }
fn arena_of<'a>(log: &Log, a: &'a mut Arena<u32>) -> &'a mut Arena<u32> { log.borrow_mut().push(-1); a }
struct Exp { val: u32, kids: Vec<Exp> }
fn x(val: u32, kids: Vec<Exp>) -> Exp { Exp { val, kids } }
fn cmp(arena: &Arena<u32>, id: NodeId, e: &Exp, path: &mut Vec<usize>) -> Result<(), String> {
    let node = arena.get(id).ok_or_else(|| format!("node at {:?} does not exist", path))?;
    if node.is_removed() { return Err(format!("node at {:?} is removed", path)); }
    if *node.get() != e.val { return Err(format!("node at path {:?} holds {} but {} was written there", path, node.get(), e.val)); }
    let kids: Vec<NodeId> = id.children(arena).take(e.kids.len() + 50).collect();
    if kids.len() != e.kids.len() {
        let vals: Vec<u32> = kids.iter().map(|k| *arena[*k].get()).collect();
        return Err(format!("node {} at path {:?} has {} children {:?} but {} were written", e.val, path, kids.len(), vals, e.kids.len()));
    }
    for (i, (k, ek)) in kids.iter().zip(e.kids.iter()).enumerate() {
        if arena[*k].parent() != Some(id) { return Err(format!("child #{i} of node {} does not name it as parent", e.val)); }
        path.push(i);
        cmp(arena, *k, ek, path)?;
        path.pop();
    }
    Ok(())
}
#[allow(clippy::too_many_arguments)]
fn check(name: &str, arena: &Arena<u32>, got: NodeId, given: Option<NodeId>, count_before: usize, written: usize, expected: &Exp, log: &Log, want_log: &[i64], res: &mut Vec<String>) {
    let mut fail = |m: String| res.push(format!("{name}: {m}"));
    match given {
        Some(r) => if got != r { fail(format!("returned {:?} but the root NodeId given was {:?}", got, r)); return; },
        None => {
            if usize::from(got) != count_before + 1 { fail(format!("a value root must create a new node (slot {}), returned slot {}", count_before + 1, usize::from(got))); return; }
            let n = &arena[got];
            if n.parent().is_some() || n.previous_sibling().is_some() || n.next_sibling().is_some() { fail("the new root is attached to something".to_string()); return; }
        }
    }
    if arena.count() != count_before + written { fail(format!("{} nodes were created for {} written expressions", arena.count() - count_before, written)); return; }
    if let Err(m) = cmp(arena, got, expected, &mut vec![]) { fail(m); return; }
    if let Some(r) = given {
        // the surroundings of an existing root are untouched
        let n = &arena[r];
        let p = n.parent().map(|p| *arena[p].get());
        let nx = n.next_sibling().map(|p| *arena[p].get());
        if p != Some(7001) || nx != Some(7002) || n.previous_sibling().is_some() { fail("the existing root was moved".to_string()); return; }
    }
    let l = log.borrow();
    if l.as_slice() != want_log { fail(format!("evaluation log {:?}, expected {:?} (-1 arena expression, -2 root id expression, k node expression k)", &*l, want_log)); }
}
"#;

fn render_crate(lits: &[(String, Lit)]) -> String {
    let mut s = String::from(PRELUDE);
    for (name, l) in lits {
        s.push_str(&render_lit(l, name).0);
    }
    s.push_str("fn main() {\n    std::panic::set_hook(Box::new(|_| {}));\n    let mut res: Vec<String> = Vec::new();\n");
    for (name, _) in lits {
        let _ = writeln!(s, "    {{ let mut r = Vec::new(); if std::panic::catch_unwind(std::panic::AssertUnwindSafe(|| {name}(&mut r))).is_err() {{ r.push(\"{name}: panicked\".to_string()); }} res.extend(r); }}");
    }
    s.push_str("    for r in &res { println!(\"FAIL {r}\"); }\n    println!(\"DONE {}\", res.len());\n}\n");
    s
}

// ------------------------------------------------------------------------------------------------
// building and running a batch

struct BatchResult {
    /// (literal name, message)
    failures: Vec<(String, String)>,
    compile_error: Option<String>,
    wall: f64,
}

fn work_root() -> PathBuf {
    PathBuf::from("/verif/target/c15")
}

fn run_batch(tag: &str, lits: &[(String, Lit)]) -> BatchResult {
    let t0 = Instant::now();
    let dir = work_root().join(format!("batch-{tag}"));
    std::fs::create_dir_all(dir.join("src")).expect("mkdir");
    std::fs::write(
        dir.join("Cargo.toml"),
        "[package]\nname = \"c15-batch\"\nversion = \"0.0.0\"\nedition = \"2021\"\n\n[workspace]\n\n[dependencies]\nindextree = { path = \"/repo/indextree\" }\n\n[profile.dev]\ndebug = false\nopt-level = 0\nincremental = false\n",
    )
    .expect("write Cargo.toml");
    if Path::new("/repo/Cargo.lock").exists() {
        let _ = std::fs::copy("/repo/Cargo.lock", dir.join("Cargo.lock"));
    }
    std::fs::write(dir.join("src/main.rs"), render_crate(lits)).expect("write main.rs");
    let target = work_root().join("target");
    let out = Command::new("cargo")
        .args(["build", "--offline", "--quiet", "--target-dir"])
        .arg(&target)
        .current_dir(&dir)
        .env("CARGO_NET_OFFLINE", "true")
        .env("CARGO_TERM_COLOR", "never")
        .env_remove("RUSTFLAGS")
        .output()
        .expect("spawn cargo");
    if !out.status.success() {
        let err = String::from_utf8_lossy(&out.stderr).to_string();
        return BatchResult { failures: vec![], compile_error: Some(err), wall: t0.elapsed().as_secs_f64() };
    }
    let run = Command::new(target.join("debug/c15-batch")).output().expect("run batch");
    let stdout = String::from_utf8_lossy(&run.stdout).to_string();
    let mut failures = Vec::new();
    let mut done = false;
    for line in stdout.lines() {
        if let Some(rest) = line.strip_prefix("FAIL ") {
            if let Some((n, m)) = rest.split_once(": ") {
                failures.push((n.to_string(), m.to_string()));
            }
        }
        if line.starts_with("DONE ") {
            done = true;
        }
    }
    if !done {
        failures.push(("<batch>".into(), format!("the generated program did not finish (status {:?})", run.status.code())));
    }
    let _ = std::fs::remove_dir_all(&dir);
    BatchResult { failures, compile_error: None, wall: t0.elapsed().as_secs_f64() }
}

/// Does this single literal fail?  Returns (kind, message).
fn judge_one(tag: &str, l: &Lit) -> Option<(String, String)> {
    let r = run_batch(tag, &[("lit_0".to_string(), l.clone())]);
    if let Some(e) = r.compile_error {
        let first = e.lines().find(|x| x.starts_with("error")).unwrap_or("error").to_string();
        return Some(("compile-error".into(), first));
    }
    r.failures.first().map(|(_, m)| ("wrong-result".to_string(), m.clone()))
}

fn classify(msg: &str) -> &'static str {
    if msg.contains("evaluation log") {
        "evaluation-order"
    } else if msg.contains("returned") || msg.contains("must create") {
        "returned-id"
    } else if msg.contains("nodes were created") {
        "node-count"
    } else if msg.contains("panicked") {
        "panic"
    } else {
        "structure"
    }
}

// ------------------------------------------------------------------------------------------------
// shrinking: candidates are compiled in ONE batch per round

fn shrink_candidates(l: &Lit) -> Vec<Lit> {
    let mut out = Vec::new();
    // drop / hoist at every position (paths into the nested kids)
    fn paths(kids: &[NodeLit], prefix: &mut Vec<usize>, out: &mut Vec<Vec<usize>>) {
        for (i, k) in kids.iter().enumerate() {
            prefix.push(i);
            out.push(prefix.clone());
            paths(&k.kids, prefix, out);
            prefix.pop();
        }
    }
    let mut ps = Vec::new();
    paths(&l.kids, &mut vec![], &mut ps);
    fn with<F: FnOnce(&mut Vec<NodeLit>, usize)>(l: &Lit, path: &[usize], f: F) -> Lit {
        let mut c = l.clone();
        let mut cur = &mut c.kids;
        for &i in &path[..path.len() - 1] {
            cur = &mut cur[i].kids;
        }
        f(cur, path[path.len() - 1]);
        c.arrow = c.arrow || !c.kids.is_empty();
        c
    }
    for p in &ps {
        out.push(with(l, p, |v, i| {
            v.remove(i);
        }));
        out.push(with(l, p, |v, i| {
            let n = v.remove(i);
            for (j, k) in n.kids.into_iter().enumerate() {
                v.insert(i + j, k);
            }
        }));
        out.push(with(l, p, |v, i| {
            v[i].form = 0;
            v[i].trailing = false;
            v[i].empty_braces = false;
        }));
    }
    let mut c = l.clone();
    c.filler = 0;
    c.delim = 0;
    c.trailing_inner = false;
    c.trailing_outer = false;
    c.arena_form = 1;
    c.root_form = 0;
    out.push(c);
    if l.root_existing.is_some() {
        let mut c = l.clone();
        c.root_existing = None;
        out.push(c.clone());
        c.root_existing = Some(0);
        out.push(c);
    }
    out.retain(|c| c != l);
    out.dedup();
    out
}

fn size(l: &Lit) -> usize {
    l.kids.iter().map(count_nodes).sum::<usize>() * 10 + l.filler as usize + l.delim as usize + l.root_existing.map_or(0, |n| 1 + n as usize) + l.trailing_inner as usize + l.trailing_outer as usize
}

fn shrink(mut l: Lit, kind: &str, class: &str) -> Lit {
    for round in 0..8 {
        let mut cands = shrink_candidates(&l);
        cands.sort_by_key(size);
        cands.truncate(120);
        if cands.is_empty() {
            break;
        }
        let named: Vec<(String, Lit)> = cands.iter().enumerate().map(|(i, c)| (format!("cand_{i}"), c.clone())).collect();
        let r = run_batch(&format!("shrink{round}"), &named);
        let mut better: Option<Lit> = None;
        if r.compile_error.is_some() {
            if kind != "compile-error" {
                break;
            }
            // find the smallest candidate that still does not compile (one compile each, smallest first)
            for (i, c) in cands.iter().enumerate().take(12) {
                if let Some((k, _)) = judge_one(&format!("shrink{round}-{i}"), c) {
                    if k == "compile-error" {
                        better = Some(c.clone());
                        break;
                    }
                }
            }
        } else if kind != "compile-error" {
            for (name, msg) in &r.failures {
                if classify(msg) != class {
                    continue;
                }
                if let Some(i) = name.strip_prefix("cand_").and_then(|x| x.parse::<usize>().ok()) {
                    if better.as_ref().map_or(true, |b| size(&cands[i]) < size(b)) {
                        better = Some(cands[i].clone());
                    }
                }
            }
        }
        match better {
            Some(b) if size(&b) < size(&l) || b != l => {
                if size(&b) >= size(&l) && round > 3 {
                    break;
                }
                l = b;
            }
            _ => break,
        }
    }
    l
}

fn arg(args: &[String], name: &str) -> Option<String> {
    args.iter().position(|a| a == name).and_then(|i| args.get(i + 1).cloned())
}

fn main() {
    let args: Vec<String> = std::env::args().collect();
    let cmd = args.get(1).map(|s| s.as_str()).unwrap_or("");
    let seed: u64 = arg(&args, "--seed").and_then(|s| s.parse().ok()).unwrap_or(0);
    let seed = if seed == 0 { 0x5EED_1DEA_2026 } else { seed };
    match cmd {
        "replay" => {
            let file = arg(&args, "--file").expect("--file");
            let rf: Replay = serde_json::from_str(&std::fs::read_to_string(&file).expect("read")).expect("parse");
            println!("{}", render_lit(&rf.literal, "lit_0").1);
            match judge_one("replay", &rf.literal) {
                Some((k, m)) => {
                    println!("  FAIL [{k}] {m}");
                    println!("REPLAY-FAILS property=C15 file={file}");
                    std::process::exit(1);
                }
                None => println!("REPLAY-PASSES property=C15 file={file}"),
            }
        }
        "run" => std::process::exit(run(&args, seed)),
        _ => {
            eprintln!("usage: itv-c15 run|replay");
            std::process::exit(2);
        }
    }
}

fn run(args: &[String], seed: u64) -> i32 {
    let t0 = Instant::now();
    let tier = arg(args, "--tier").unwrap_or_else(|| "quick".into());
    let out_path = arg(args, "--out").unwrap_or_else(|| "/verif/target/partials/C15.json".into());
    let (batches, per_batch, depth, width) = if tier == "thorough" { (32usize, 1000usize, 8u32, 6usize) } else { (1usize, 320usize, 6u32, 5usize) };
    let mut sb = [0u8; 32];
    let mut s = seed ^ 0xC15;
    for ch in sb.chunks_mut(8) {
        s = s.wrapping_mul(6364136223846793005).wrapping_add(1442695040888963407);
        ch.copy_from_slice(&s.to_le_bytes());
    }
    let mut runner = TestRunner::new_with_rng(Config { cases: 1, failure_persistence: None, ..Config::default() }, TestRng::from_seed(RngAlgorithm::ChaCha, &sb));
    let strat = prop_oneof![9 => lit_strategy(depth, width), 1 => spine_strategy()].boxed();
    let mut all: Vec<Vec<(String, Lit)>> = Vec::new();
    // replay tier: regression literals go first
    let mut regress: Vec<(String, Lit)> = Vec::new();
    if let Ok(rd) = std::fs::read_dir("/verif/regressions/C15") {
        let mut files: Vec<_> = rd.filter_map(|e| e.ok()).map(|e| e.path()).filter(|p| p.extension().map_or(false, |x| x == "json")).collect();
        files.sort();
        for (i, f) in files.iter().enumerate() {
            if let Ok(rf) = serde_json::from_str::<Replay>(&std::fs::read_to_string(f).unwrap_or_default()) {
                regress.push((format!("reg_{i}"), rf.literal));
            }
        }
    }
    for b in 0..batches {
        let mut v: Vec<(String, Lit)> = Vec::new();
        if b == 0 {
            v.extend(regress.iter().cloned());
            for (i, l) in special_lits().into_iter().enumerate() {
                v.push((format!("special_{i}"), l));
            }
        }
        while v.len() < per_batch {
            if let Ok(t) = strat.new_tree(&mut runner) {
                v.push((format!("lit_{b}_{}", v.len()), t.current()));
            }
        }
        all.push(v);
    }
    // statistics of what was generated
    let mut nt: HashSet<String> = HashSet::new();
    let (mut total, mut nodes, mut maxd, mut maxw) = (0usize, 0usize, 0usize, 0usize);
    let mut samples = Vec::new();
    let mut hist_depth = std::collections::BTreeMap::new();
    for v in &all {
        for (name, l) in v {
            total += 1;
            let n = l.kids.iter().map(count_nodes).sum::<usize>();
            let d = l.kids.iter().map(depth_of).max().unwrap_or(0);
            nodes += n;
            maxd = maxd.max(d);
            fn w(k: &[NodeLit]) -> usize {
                k.len().max(k.iter().map(|c| w(&c.kids)).max().unwrap_or(0))
            }
            maxw = maxw.max(w(&l.kids));
            *hist_depth.entry(d).or_insert(0u64) += 1;
            // non-trivial: depth >= 2 and some node with children is not the last sibling
            fn nonlast_parent(k: &[NodeLit]) -> bool {
                k.iter().enumerate().any(|(i, c)| (!c.kids.is_empty() && i + 1 < k.len()) || nonlast_parent(&c.kids))
            }
            if d >= 2 && nonlast_parent(&l.kids) {
                let src = render_lit(l, "f").1;
                let norm: String = src.chars().filter(|c| !c.is_ascii_digit()).collect();
                nt.insert(norm);
                if samples.len() < 3 && n <= 9 && n >= 4 {
                    samples.push(json!({"name": name, "source": src}));
                }
            }
        }
    }
    // build + run the batches in parallel (each is one cargo build; they share the dependency cache)
    // first batch alone so that the dependencies are compiled once
    let mut results: Vec<(usize, BatchResult)> = Vec::new();
    results.push((0, run_batch("0", &all[0])));
    if all.len() > 1 {
        let rest: Vec<(usize, BatchResult)> = std::thread::scope(|sc| {
            let hs: Vec<_> = all.iter().enumerate().skip(1).map(|(i, v)| sc.spawn(move || (i, run_batch(&i.to_string(), v)))).collect();
            hs.into_iter().map(|h| h.join().expect("batch thread")).collect()
        });
        results.extend(rest);
    }
    let mut violation: Option<(Lit, String, String)> = None; // literal, kind, message
    let mut build_wall = 0.0;
    for (i, r) in &results {
        build_wall += r.wall;
        if violation.is_some() {
            break;
        }
        if let Some(err) = &r.compile_error {
            // which literal does not compile?  bisect.
            let mut lo = all[*i].clone();
            if lo.iter().all(|(_, l)| judge_one("probe", l).is_none()) && lo.len() > 64 {
                // whole-batch failure that no single literal reproduces: infrastructure
                eprintln!("batch {i} does not compile but no single literal reproduces it:\n{}", &err[..err.len().min(3000)]);
                return 2;
            }
            while lo.len() > 1 {
                let (a, b) = lo.split_at(lo.len() / 2);
                let ra = run_batch("bisect", a);
                lo = if ra.compile_error.is_some() { a.to_vec() } else { b.to_vec() };
            }
            if let Some((k, m)) = judge_one("bisect1", &lo[0].1) {
                violation = Some((lo[0].1.clone(), k, m));
            } else {
                eprintln!("compile error did not reproduce on a single literal:\n{}", &err[..err.len().min(3000)]);
                return 2;
            }
        } else if let Some((name, msg)) = r.failures.first() {
            if let Some((_, l)) = all[*i].iter().find(|(n, _)| n == name) {
                violation = Some((l.clone(), "wrong-result".into(), msg.clone()));
            } else {
                eprintln!("batch {i}: {msg}");
                return 2;
            }
        }
    }
    let mut code = 0;
    let mut viol = serde_json::Value::Null;
    if let Some((l, kind, msg)) = violation {
        let class = classify(&msg).to_string();
        let min = shrink(l, &kind, &class);
        let (k2, m2) = judge_one("final", &min).unwrap_or((kind.clone(), msg.clone()));
        let sig = format!("tree/{}/{}", k2, classify(&m2));
        std::fs::create_dir_all("/verif/replays/C15").ok();
        let path = format!("/verif/replays/C15/{:016x}.json", {
            let mut h: u64 = 0xcbf29ce484222325;
            for b in sig.bytes() {
                h ^= b as u64;
                h = h.wrapping_mul(0x100000001b3);
            }
            h
        });
        let source = render_lit(&min, "lit_0").1;
        let rf = Replay { property: "C15".into(), sig: sig.clone(), message: m2.clone(), seed, literal: min, source: source.clone() };
        std::fs::write(&path, serde_json::to_string_pretty(&rf).unwrap()).ok();
        println!("VIOLATION property=C15 replay={path}");
        println!("  sig: {sig}");
        println!("  {m2}");
        println!("  literal:\n    {}", source.replace('\n', "\n    "));
        viol = json!({"sig": sig, "msg": m2, "replay": path});
        code = 1;
    }
    let partial = json!({
        "property_id": "C15", "tier": tier, "build": "dev", "seed": seed, "label": "generated programs containing tree! literals, compiled against /repo",
        "evaluations": total, "distinct_nontrivial": nt.len(), "cases": total,
        "engines": {"programs": {"crates_built": results.len(), "literals": total, "written_nodes": nodes, "max_depth": maxd, "max_width": maxw, "regression_literals": regress.len(), "cargo_wall_s": build_wall}},
        "max_depth_hist": hist_depth, "samples": samples, "violation": viol, "wall_s": t0.elapsed().as_secs_f64(),
    });
    if let Some(p) = Path::new(&out_path).parent() {
        std::fs::create_dir_all(p).ok();
    }
    std::fs::write(&out_path, serde_json::to_string_pretty(&partial).unwrap()).expect("write partial");
    println!("itv-c15 {tier}: {total} literals ({nodes} written nodes, max depth {maxd}, max width {maxw}) in {} generated crates, {} distinct non-trivial, {:.1}s", results.len(), nt.len(), t0.elapsed().as_secs_f64());
    code
}
