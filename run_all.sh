#!/bin/bash
# run_all.sh [quick|thorough] [seed] — every check on the current tree; prints one line per property
cd /verif
tier=${1:-quick}; seed=${2:-0}
fail=0
for p in C01 C02 C03 C04 C05 C06 C07 C08 C09 C10 C11 C12 C13 C14 C15 C16 C17 C18; do
  start=$(date +%s)
  out=$(VERIF_SEED=$seed ./check $p $tier 2>&1); rc=$?
  dur=$(( $(date +%s) - start ))
  echo "$p rc=$rc ${dur}s $(echo "$out" | tail -1 | cut -c1-150)"
  if [ $rc != 0 ]; then fail=1; echo "$out" | grep -E "VIOLATION|INCONCLUSIVE" -A3 | head -12; fi
done
exit $fail
