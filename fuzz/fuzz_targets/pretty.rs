//! Coverage-guided search over pretty-printer documents (C14): bytes -> PrettyCase -> reference renderer.
#![no_main]
use itv_core::pretty::{decode_bytes, eval};
use libfuzzer_sys::fuzz_target;
use std::sync::Once;

static INIT: Once = Once::new();

fuzz_target!(|data: &[u8]| {
    INIT.call_once(|| std::panic::set_hook(Box::new(|_| {})));
    let Some(case) = decode_bytes(data) else { return };
    let o = eval(&case, false);
    if let Some(f) = o.failure {
        eprintln!("ORACLE-FAILURE [{}] {}: {}", f.props.join(","), f.sig, f.msg);
        std::process::abort();
    }
});
