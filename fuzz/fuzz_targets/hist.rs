//! Coverage-guided search over call histories: bytes -> op IR (itv_core::gen::decode_bytes) -> the
//! same interpreter and oracles as the random engine.  The property to judge and its profile come
//! from ITV_PROP (default: every oracle on, any failure aborts).
#![no_main]
use itv_core::engine::eval_case;
use itv_core::gen::{decode_bytes, Profile};
use itv_core::payload::{Plain, Tracked};
use itv_core::world::StepCfg;
use libfuzzer_sys::fuzz_target;
use std::sync::OnceLock;

struct Setup {
    prop: String,
    prof: Profile,
    cfg: StepCfg,
}
static SETUP: OnceLock<Setup> = OnceLock::new();

fn setup() -> &'static Setup {
    SETUP.get_or_init(|| {
        // library panics are caught and judged by the oracles: silence the aborting hook of libfuzzer-sys
        std::panic::set_hook(Box::new(|_| {}));
        let prop = std::env::var("ITV_PROP").unwrap_or_else(|_| "ALL".into());
        let mut prof = Profile::for_prop(if prop == "ALL" { "FUZZ" } else { &prop });
        // keep the per-input cost low: deep checks only at Probe ops, small candidate sets
        prof.deep.at_end = false;
        prof.deep.max_cand = prof.deep.max_cand.min(4);
        prof.deep.dei_exh_bits = prof.deep.dei_exh_bits.min(6);
        Setup { prop, prof, cfg: StepCfg { max_live: 24, ..StepCfg::default() } }
    })
}

fuzz_target!(|data: &[u8]| {
    let s = setup();
    let ops = decode_bytes(data, 96);
    let run = if s.prop == "C16" || s.prop == "C17" { eval_case::<Plain>(&ops, &s.prof, &s.cfg, false) } else { eval_case::<Tracked>(&ops, &s.prof, &s.cfg, false) };
    if let Some((i, fs, _)) = run.fail {
        for f in &fs {
            if s.prop == "ALL" || f.hits(&s.prop) {
                eprintln!("ORACLE-FAILURE at op {i} [{}] {}: {}", f.props.join(","), f.sig, f.msg);
                std::process::abort();
            }
        }
    }
});
