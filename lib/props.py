"""Per-property specifications for the check driver: which engines run, the non-triviality rule that
is reported in evidence, assumptions, and how partial results are merged."""
import json, os, re

# ------------------------------------------------------------------------------------------------
# text that goes into the evidence files

RULES = {
    "C01": "Cases are call histories over the op IR (all mutators in checked and unchecked form, failing calls left in, removed ids as arguments): every history of <= d calls over <= k slots from the empty arena and from every forest shape (exhaustive sub-runs), plus proptest-generated histories, plus one-step probes of every (entry point, a, b) on clones. After every step the link table of every slot is read through Arena::get + Node accessors and the model-free well-formedness predicate is evaluated. Non-trivial: a structural mutation executed on >= 3 live nodes, or a rejected call; distinct by (entry point, argument relation, shape of the trees containing the arguments).",
    "C02": "Same histories; every insert is executed for every ordered pair of candidate ids at probe states. Oracle: own bounded walks along parent/next/prev links right after each call, every library iterator from every live start node consumed through take(cap+1). Non-trivial: an insert whose two arguments are related (anything but 'other tree'), accepted or rejected; distinct by (entry point, relation, outcome, marked shape).",
    "C03": "Successful append/prepend/insert_before/insert_after (both forms), append_value and detach, in generated and exhaustively enumerated histories; oracle = children-list model -> expected five links of EVERY slot (effect + frame), Arena== snapshot for re-insertion in place, clone equivalence new_node+append for append_value. Non-trivial: moved node has >= 1 child, or the move is inside one sibling list, or a top-level chain is involved; distinct by (entry point, relation, marked shape).",
    "C04": "remove / remove_subtree of every live node (probe on clones at probe states, plus in-history); oracle = model splice -> expected links of every survivor and exact set of slots whose removed flag flipped. Non-trivial: x has >= 1 child and >= 1 sibling, or x is a member of a top-level chain of >= 2; distinct by (op, position class, marked shape).",
    "C05": "Every reachable state of the exhaustive sub-runs and >= 2 states per random history x 8 entry points x every ordered pair of candidate ids (live + removed-not-recycled), in a debug-assertion build and a release build. Oracle: impossible(kind,a,b) computed on the model; Err iff impossible with an applicable reason; Arena == snapshot after Err/panic; unchecked forms panic iff impossible; per-history digests equal between the two builds. Non-trivial: related arguments or a removed id; distinct by (entry point, relation, outcome, marked shape).",
    "C06": "alloc/remove histories with slot churn macro-ops (cycle classes 1-6, 100-300, 32760-32790, 65530-65560, 70000). Oracle: HashSet of every id issued since creation/clear (uniqueness), is_removed false for live ids / true for every older generation (sampled every cycle, all generations every 1024 cycles). Non-trivial: a slot recycled >= 2 times; distinct by (cycles, recycle count reached).",
    "C07": "Interleavings of new_node/append_value/remove/remove_subtree/clear + churn; oracle = model free SET (no FIFO assumption): returned slot must be free (and count() unchanged) or, with no free slot, count()+1; bystander rows unchanged; drain-a-clone at probe states must hand out exactly the free set. Non-trivial: allocation while >= 2 slots are free, a drain with >= 2 free slots, or a remove_subtree freeing >= 2; distinct by (op, number of free slots).",
    "C08": "Histories over a drop-instrumented payload (serial identity + value): after every step every live node's payload via get() and Index equals the model; per-step exact destructor ledger; Set via get_mut/IndexMut/iter_mut; clear and final drop. Non-trivial: a slot is recycled while >= 1 bystander is live, or a payload write with >= 2 live nodes; distinct by (op, marked shape).",
    "C09": "Forests reached by histories (moves, removals, recycling) and by exhaustive enumeration; EVERY live node as start node of ancestors/predecessors/preceding_siblings/following_siblings/children/reverse_children/descendants/traverse/reverse_traverse + NodeEdge stepping along whole top-level chains; expected sequences derived from the model. Non-trivial: start node has a parent or a top-level sibling and a subtree of >= 2 nodes; distinct by marked shape.",
    "C10": "Same forests; every live node x {children, preceding_siblings, following_siblings} x ALL front/back pull patterns of length len+2 when len+2 <= 10 (else 4 fixed + sampled patterns) + rev(); oracle = deque semantics over the forward sequence from the model. Non-trivial: len >= 2 with a pattern mixing both ends, or a parentless start node; distinct by (iterator, len, pattern, parentless).",
    "C11": "Reachable arenas with removed and recycled slots; every slot x all lookup paths (get, Index, get_mut, IndexMut, as_slice, iter().nth, get_node_id, get_node_id_at, usize/NonZeroUsize/Display), positions count+1, count+2, count+1000, usize::MAX, ids of a larger arena, node references of a clone / unrelated arena / stack copy. Non-trivial: arena holds >= 1 removed and >= 1 recycled slot; distinct by forest shape and counts.",
    "C12": "Removal-heavy histories (both removal paths); after every step every removed-not-recycled slot must report five None links; at probe states every removed id x 8 inserts x both positions x every partner + append_value on it must be refused (Err / panic) with Arena == snapshot; recycled slot starts with no links. Non-trivial: the removed node had relatives or was removed as a descendant, or an insert attempt involving a removed id; distinct by (op, relation, outcome, marked shape).",
    "C13": "prefix || clone/clear point || continuations: replica arenas built from the same calls must be == and return the same ids; clone == original, then both continue independently and must equal replicas; clear() then continuation must equal the continuation on Arena::new(); with_capacity/reserve capacity guarantees. Non-trivial: the clone/clear point has a non-empty free list and the continuation allocates.",
}

ASSUME = [
    "ids passed to the library are current for their slot (live, or removed and not yet recycled); stale ids of recycled slots are only passed to NodeId::is_removed",
    "detach/remove/remove_subtree/payload access/iterators are only called on live nodes",
    "free-slot reuse order, capacity values, error precedence, panic messages and Debug output are not assumed",
    "sizes bounded: <= 48 live nodes, <= 60 (quick) / 250 (thorough) calls per history",
]


def history_spec(prop):
    return dict(run=run_history_prop, replay=replay_history_prop, rule=RULES[prop], assumptions=ASSUME)


# ------------------------------------------------------------------------------------------------
# history-based properties (C01..C13): itv in two build profiles


# properties whose runner needs a non-default feature set of indextree (own target dir: no rebuild thrash)
BUILD_OPTS = {"C16": dict(features="std,deser", sub="deser")}


def _itv(ctx, profile_dir):
    o = BUILD_OPTS.get(ctx["prop"])
    base = os.path.join(ctx["TARGET"], o["sub"]) if o else ctx["TARGET"]
    return os.path.join(base, profile_dir, "itv")


def build_itv(ctx):
    o = BUILD_OPTS.get(ctx["prop"])
    for prof in ("vdbg", "vrel"):
        if o:
            rc, out, dt = ctx["build"](["itv"], prof, features=o["features"], target_dir=os.path.join(ctx["TARGET"], o["sub"]))
        else:
            rc, out, dt = ctx["build"](["itv"], prof)
        if rc != 0:
            ctx["fail_infra"](ctx["prop"], f"harness build ({prof}) failed", out)


def run_history_prop(ctx):
    prop, tier, seed = ctx["prop"], ctx["tier"], ctx["seed"]
    build_itv(ctx)
    res = dict(partials=[], violations=[], known_lines=[], output="")
    exclude = []
    for k in ctx["known"]:
        # re-confirm the listed finding, then exclude its class by construction
        rc, out, _ = ctx["sh"]([_itv(ctx, "vdbg"), "replay", "--prop", prop, "--file", os.path.join(ctx["VERIF"], k["file"])], timeout=600)
        if rc == 1:
            res["known_lines"].append(f"KNOWN-FINDING: property={prop} sig={k['sig']} {k['text']}")
        parts = k["sig"].split("/")
        exclude.append("/".join(parts[:2]) + "/")
    digests = {}
    for prof, b in (("vdbg", "dbg"), ("vrel", "rel")):
        part = os.path.join(ctx["TARGET"], "partials", f"{prop}-{b}.json")
        dig = os.path.join(ctx["TARGET"], "partials", f"{prop}-{b}.dig")
        for f in (part, dig):
            if os.path.exists(f):
                os.remove(f)
        cmd = [_itv(ctx, prof), "run", "--prop", prop, "--tier", tier, "--seed", str(seed), "--build", b, "--out", part, "--digests", dig]
        if exclude:
            cmd += ["--exclude", ",".join(exclude)]
        rc, out, dt = ctx["sh"](cmd, timeout=6 * 3600)
        res["output"] += out
        if rc not in (0, 1) or not os.path.exists(part):
            res["inconclusive"] = f"runner ({b}) exited with {rc}"
            continue
        p = json.load(open(part))
        res["partials"].append(p)
        if rc == 1 and p.get("violation"):
            v = p["violation"]
            res["violations"].append((v["replay"], f"[{b} build] {v['sig']}: {v['msg']}"))
        if os.path.exists(dig):
            digests[b] = open(dig).read().splitlines()
    # debug and release builds must agree on every history (C05: "in debug and release builds alike")
    if prop == "C05" and not res["violations"] and len(digests) == 2 and digests["dbg"] != digests["rel"]:
        d1, d2 = digests["dbg"], digests["rel"]
        idx = next((i for i in range(min(len(d1), len(d2))) if d1[i] != d2[i]), min(len(d1), len(d2)))
        case = int(d1[idx].split()[0]) if idx < len(d1) else -1
        worker, ci = case >> 32, case & 0xFFFFFFFF
        rc, out, _ = ctx["sh"]([_itv(ctx, "vdbg"), "emit", "--prop", prop, "--seed", str(seed), "--worker", str(worker), "--case", str(ci)], timeout=600)
        os.makedirs(os.path.join(ctx["VERIF"], "replays", prop), exist_ok=True)
        path = os.path.join(ctx["VERIF"], "replays", prop, f"dbg-vs-rel-{worker}-{ci}.json")
        try:
            ops = json.loads(out.strip().splitlines()[-1])
        except Exception:
            ops = []
        json.dump(dict(property=prop, profile=prop, sig="dbg-vs-rel/digest", message="debug-assertion build and release build disagree on this history",
                       found_by=f"digest comparison worker {worker} case {ci}", seed=seed, build="dbg+rel", ops=ops, trace=[], note=""), open(path, "w"), indent=1)
        res["violations"].append((path, "debug and release builds observe different results for the same history"))
    return res


def replay_history_prop(ctx):
    build_itv(ctx)
    worst = 0
    for prof in ("vdbg", "vrel"):
        rc, out, _ = ctx["sh"]([_itv(ctx, prof), "replay", "--prop", ctx["prop"], "--file", ctx["replay"]], timeout=3600)
        print(f"--- {prof}")
        print(out.rstrip())
        if rc == 1:
            worst = 1
        elif rc != 0 and worst == 0:
            worst = 2
    if worst == 1:
        print(f"VIOLATION property={ctx['prop']} replay={ctx['replay']}")
    return worst


# ------------------------------------------------------------------------------------------------


def merge_coverage(prop, partials, spec):
    """Sum evaluations over sub-runs; distinct_nontrivial is the maximum over builds (the two builds
    execute the same generated cases, so their distinct sets coincide and must not be added)."""
    ev = sum(p.get("evaluations", 0) for p in partials)
    groups = {}
    for p in partials:
        g = p.get("distinct_group", "default")
        groups[g] = max(groups.get(g, 0), p.get("distinct_nontrivial", 0))
    nt = sum(groups.values())
    samples = []
    for p in partials:
        for s in p.get("samples", []):
            if len(samples) < 8:
                samples.append(s)
    if not samples:
        samples = ["(no sample recorded)"]
    cov = dict(evaluations=ev, distinct_nontrivial=nt, rule=spec["rule"], samples=samples)
    exh = []
    for p in partials:
        for e in (p.get("engines", {}) or {}).get("exhaustive", []) or []:
            exh.append(dict(e, build=p.get("build")))
    if exh:
        cov["exhaustive_subruns"] = exh
        cov["exhaustive"] = False  # the run as a whole is a bounded exploration; see exhaustive_subruns
    cov["sub_runs"] = [
        {k: p.get(k) for k in ("build", "label", "evaluations", "distinct_nontrivial", "cases", "steps", "skipped_ops", "excluded_by_construction", "engines", "features",
                                 "max_live_hist", "max_depth_hist", "generator_health", "other_property_failures", "wall_s", "extra") if k in p}
        for p in partials
    ]
    # the op x relation matrix of the first sub-run (identical generation in the others)
    if partials and partials[0].get("classes"):
        cov["generated_classes"] = partials[0]["classes"]
    return cov


RULES["C14"] = "Generated documents: forest spec (each node attaches below the previous node, beside it, below a generated earlier node, or starts/extends a top-level chain; built with append_value / append / prepend) x four independent renderings per payload (1-4 lines, empty first/interior lines, guide look-alike text, tabs, multi-byte chars; last line non-empty) x a chunking plan for the payload's write_str calls. EVERY node is used as start node in all four format modes; oracle = independent reference renderer (exact comparison; trailing blanks ignored only on empty payload lines). An evaluation is one (document, start node, mode). Non-trivial: start node with siblings and children, or a multi-line payload at relative depth >= 2 below a last-sibling ancestor; distinct by printed text."

RULES["C16"] = "Histories (removal-heavy, recycling, clear, rare generation-exhausting churn) with Roundtrip ops: the arena is serialised with serde_json and deserialised; the copy must be == the original, serialise to the same text, agree on is_removed for EVERY id ever issued, and then executes the rest of the history in lock-step with the original (same outcomes, Arena == after every call, and the copy is checked against the reference model as well). Non-trivial: the free list is non-empty at the round trip and a later call allocates; distinct by (forest shape, number of free / recycled / retired slots)."

SPECS = {p: history_spec(p) for p in RULES}
SPECS["C16"]["assumptions"] = ASSUME + ["one self-describing data format (serde_json) carries the derives under test; non-self-describing formats are not exercised"]
SPECS["C14"]["assumptions"] = ["payload renderings are non-empty and do not end in a newline (the property's precondition), by construction", "documents have <= 20 (quick) / 28 (thorough) nodes, payloads <= 4 lines"]
