"""Per-property specifications for the check driver: which engines run, the non-triviality rule that
is reported in evidence, assumptions, and how partial results are merged."""
import json, os, re

# ------------------------------------------------------------------------------------------------
# text that goes into the evidence files

RULES = {
    "C01": "Cases are call histories over the op IR (all mutators in checked and unchecked form, failing calls left in, removed ids as arguments): every history of <= d calls over <= k slots from the empty arena and from every forest shape (exhaustive sub-runs), plus proptest-generated histories (with Grow macro-operations on a size ladder 2..1100 and a big-arena sub-run beyond 65 536 slots), plus one-step probes of every (entry point, a, b) on clones. After every step the link table of every slot is read through Arena::get + Node accessors and the model-free well-formedness predicate is evaluated. Non-trivial: a structural mutation executed on >= 3 live nodes, or a rejected call; distinct by (entry point, argument relation, shape of the trees containing the arguments).",
    "C02": "Same histories; every insert is executed for every ordered pair of candidate ids at probe states. Oracle: own bounded walks along parent/next/prev links right after each call, every library iterator from every live start node consumed through take(cap+1). Non-trivial: an insert whose two arguments are related (anything but 'other tree'), accepted or rejected; distinct by (entry point, relation, outcome, marked shape).",
    "C03": "Successful append/prepend/insert_before/insert_after (both forms), append_value and detach, in generated and exhaustively enumerated histories; oracle = children-list model -> expected five links of EVERY slot (effect + frame), Arena== snapshot for re-insertion in place, clone equivalence new_node+append for append_value. Non-trivial: moved node has >= 1 child, or the move is inside one sibling list, or a top-level chain is involved; distinct by (entry point, relation, marked shape).",
    "C04": "remove / remove_subtree of every live node (probe on clones at probe states, plus in-history); oracle = model splice -> expected links of every survivor and exact set of slots whose removed flag flipped. Non-trivial: x has >= 1 child and >= 1 sibling, or x is a member of a top-level chain of >= 2; distinct by (op, position class, marked shape).",
    "C05": "Every reachable state of the exhaustive sub-runs and >= 2 states per random history x 8 entry points x every ordered pair of candidate ids (live + removed-not-recycled), in a debug-assertion build and a release build. Oracle: impossible(kind,a,b) computed on the model; Err iff impossible with an applicable reason; Arena == snapshot after Err/panic; unchecked forms panic iff impossible; per-history digests equal between the two builds. Non-trivial: related arguments or a removed id; distinct by (entry point, relation, outcome, marked shape).",
    "C06": "alloc/remove histories with slot churn macro-ops (cycle classes 1-6, 100-300, 32760-32790, 65530-65560, 70000). Oracle: HashSet of every id issued since creation/clear (uniqueness), is_removed false for live ids / true for every older generation (sampled every cycle, all generations every 1024 cycles). Non-trivial: a slot recycled >= 2 times; distinct by (cycles, recycle count reached).",
    "C07": "Interleavings of new_node/append_value/remove/remove_subtree/clear + churn; oracle = model free SET (no FIFO assumption): returned slot must be free (and count() unchanged) or, with no free slot, count()+1; bystander rows unchanged; drain-a-clone at probe states must hand out exactly the free set. Non-trivial: allocation while >= 2 slots are free, a drain with >= 2 free slots, or a remove_subtree freeing >= 2; distinct by (op, number of free slots).",
    "C08": "Histories over a drop-instrumented payload (serial identity + value): after every step every live node's payload via get() and Index equals the model; per-step exact destructor ledger; Set via get_mut/IndexMut/iter_mut; clear and final drop. Non-trivial: a slot is recycled while >= 1 bystander is live, or a payload write with >= 2 live nodes; distinct by (op, marked shape).",
    "C09": "Forests reached by histories (moves, removals, recycling) and by exhaustive enumeration; EVERY live node as start node of ancestors/predecessors/preceding_siblings/following_siblings/children/reverse_children/descendants/traverse/reverse_traverse + NodeEdge stepping along whole top-level chains; expected sequences derived from the model. Non-trivial: start node has a parent or a top-level sibling and a subtree of >= 2 nodes; distinct by marked shape.",
    "C10": "Same forests; every live node x {children, preceding_siblings, following_siblings} x ALL front/back pull patterns of length len+2 when len+2 <= 10 (else 4 fixed + sampled patterns) + rev(); oracle = deque semantics over the forward sequence from the model. Non-trivial: len >= 2 with a pattern mixing both ends, or a parentless start node; distinct by (iterator, len, pattern, parentless).",
    "C11": "Reachable arenas with removed and recycled slots; every slot x all lookup paths (get, Index, get_mut, IndexMut, as_slice, iter().nth, get_node_id, get_node_id_at, usize/NonZeroUsize/Display), positions count+1, count+2, count+1000, usize::MAX, ids of a larger arena, node references of a clone / unrelated arena / stack copy. Non-trivial: arena holds >= 1 removed and >= 1 recycled slot; distinct by forest shape and counts.",
    "C12": "Removal-heavy histories (both removal paths); after every step every removed-not-recycled slot must report five None links; at probe states every removed id x 8 inserts x both positions x every partner + append_value on it must be refused (Err / panic) with Arena == snapshot; recycled slot starts with no links. Non-trivial: the removed node had relatives or was removed as a descendant, or an insert attempt involving a removed id; distinct by (op, relation, outcome, marked shape).",
    "C13": "prefix || clone/clear point || continuations: replica arenas built from the same calls must be == and return the same ids; clone == original, then both continue independently and must equal replicas; clear() then continuation must equal the continuation on Arena::new(); with_capacity/reserve capacity guarantees. Non-trivial: the clone/clear point has a non-empty free list and the continuation allocates.",
}

ASSUME = [
    "ids passed to the library are current for their slot (live, or removed and not yet recycled); stale ids of recycled slots are only passed to NodeId::is_removed",
    "detach/remove/remove_subtree/payload access/iterators are only called on live nodes",
    "free-slot reuse order, capacity values, error precedence, panic messages and Debug output are not assumed",
    "sizes bounded: step-by-step histories have <= 48 live nodes from single allocations and <= 60 / 200-250 calls; larger structures (up to ~90 000 nodes: index, depth and sibling-list ranges beyond 65 536) only arise from the Grow macro-operation's seven fixed shapes and its size ladder",
    "a generation counter is brought to its end on a handful of slots per run only (Churn / ChurnTo classes 127, 255, 257, 32 767, 65 535, 70 000)",
]


def history_spec(prop):
    return dict(run=run_history_prop, replay=replay_history_prop, rule=RULES[prop], assumptions=ASSUME)


# ------------------------------------------------------------------------------------------------
# libFuzzer campaigns (thorough tier): coverage-guided search with the oracle inside the target


def fuzz_campaign(ctx, target, prop, runs_per_proc, procs=16, max_len=256, itv_exe=None):
    """returns (partial dict or None, violations list, note)"""
    import shutil, subprocess, glob
    fdir = os.path.join(ctx["VERIF"], "fuzz")
    rc, out, dt = ctx["sh"](["cargo", "+nightly", "fuzz", "build", "-s", "none", "--fuzz-dir", fdir, target], cwd=fdir, timeout=3600)
    if rc != 0:
        return None, [], "fuzz build failed (infrastructure): " + out[-600:]
    exe = os.path.join(fdir, "target", "x86_64-unknown-linux-gnu", "release", target)
    base = os.path.join(ctx["TARGET"], "fuzz-work", f"{prop}-{target}")
    shutil.rmtree(base, ignore_errors=True)
    procs_l = []
    for i in range(procs):
        corpus = os.path.join(base, f"corpus-{i}")
        art = os.path.join(base, f"art-{i}") + "/"
        os.makedirs(corpus)
        os.makedirs(art)
        for f in glob.glob(os.path.join(fdir, "seeds", target, "*")):
            shutil.copy(f, corpus)
        env = dict(ctx["ENV"], ITV_PROP=prop)
        cmd = [exe, f"-runs={runs_per_proc}", f"-seed={(ctx['seed'] * 16 + i + 1) & 0x7fffffff}", "-len_control=0", f"-max_len={max_len}", "-print_final_stats=1", f"-artifact_prefix={art}", corpus]
        procs_l.append((i, subprocess.Popen(cmd, env=env, stdout=subprocess.PIPE, stderr=subprocess.STDOUT, text=True), corpus, art))
    total_runs, corpus_sizes, viols, samples = 0, [], [], []
    for i, p, corpus, art in procs_l:
        try:
            out, _ = p.communicate(timeout=4 * 3600)
        except subprocess.TimeoutExpired:
            p.kill()
            out = ""
        m = re.search(r"stat::number_of_executed_units:\s*(\d+)", out)
        total_runs += int(m.group(1)) if m else 0
        corpus_sizes.append(len(os.listdir(corpus)))
        for a in sorted(glob.glob(art + "crash-*")):
            if viols:
                break
            rdir = os.path.join(ctx["VERIF"], "replays", prop)
            os.makedirs(rdir, exist_ok=True)
            rfile = os.path.join(rdir, f"fuzz-{target}-{os.path.basename(a)[6:22]}.json")
            itv = itv_exe or _itv(ctx, "vdbg")
            ctx["sh"]([itv, "decode", "--prop", prop, "--file", a, "--out", rfile], timeout=600)
            rc2, out2, _ = ctx["sh"]([itv, "replay", "--prop", prop, "--file", rfile, "--any-sig"], timeout=1200)
            if rc2 == 1:
                fl = "; ".join(l.strip() for l in out2.splitlines() if "FAIL" in l)[:500]
                viols.append((rfile, f"[libFuzzer {target}] {fl}"))
            else:
                samples.append(f"fuzz crash {a} did not reproduce in the strict replayer (ignored)")
    # a few corpus entries, decoded, as samples
    for f in sorted(glob.glob(os.path.join(base, "corpus-0", "*")))[:2]:
        rc3, out3, _ = ctx["sh"]([itv_exe or _itv(ctx, "vdbg"), "decode", "--prop", prop, "--file", f], timeout=60)
        try:
            d = json.loads(out3)
            samples.append({"fuzz_corpus_entry": os.path.basename(f), "decoded": d.get("ops", d.get("case"))})
        except Exception:
            pass
    part = dict(build="fuzz", label=f"libFuzzer target {target}, {procs} processes x {runs_per_proc} runs, oracle for {prop} inside the target",
                evaluations=total_runs, distinct_nontrivial=sum(corpus_sizes), distinct_group=f"fuzz-{target}",
                engines={"fuzz": {"target": target, "runs": total_runs, "processes": procs, "corpus_entries_with_new_coverage": corpus_sizes}},
                samples=samples[:3])
    shutil.rmtree(base, ignore_errors=True)
    return part, viols, ""


# ------------------------------------------------------------------------------------------------
# history-based properties (C01..C13): itv in two build profiles


# properties whose runner needs a non-default feature set of indextree (own target dir: no rebuild thrash)
BUILD_OPTS = {"C16": dict(features="std,deser", sub="deser")}


def _itv(ctx, profile_dir):
    o = BUILD_OPTS.get(ctx["prop"])
    base = os.path.join(ctx["TARGET"], o["sub"]) if o else ctx["TARGET"]
    return os.path.join(base, profile_dir, "itv")


def build_itv(ctx):
    o = BUILD_OPTS.get(ctx["prop"])
    for prof in ("vdbg", "vrel"):
        if o:
            rc, out, dt = ctx["build"](["itv"], prof, features=o["features"], target_dir=os.path.join(ctx["TARGET"], o["sub"]))
        else:
            rc, out, dt = ctx["build"](["itv"], prof)
        if rc != 0:
            ctx["fail_infra"](ctx["prop"], f"harness build ({prof}) failed", out)


def run_history_prop(ctx):
    prop, tier, seed = ctx["prop"], ctx["tier"], ctx["seed"]
    build_itv(ctx)
    res = dict(partials=[], violations=[], known_lines=[], output="")
    exclude = []
    for k in ctx["known"]:
        # re-confirm the listed finding, then exclude its class by construction
        rc, out, _ = ctx["sh"]([_itv(ctx, "vdbg"), "replay", "--prop", prop, "--file", os.path.join(ctx["VERIF"], k["file"])], timeout=600)
        if rc == 1:
            res["known_lines"].append(f"KNOWN-FINDING: property={prop} sig={k['sig']} {k['text']}")
        parts = k["sig"].split("/")
        exclude.append("/".join(parts[:2]) + "/")
    digests = {}
    runs = [("vdbg", "dbg", None), ("vrel", "rel", None)]
    if prop == "C16":
        # the round trip must hold whatever the payload looks like on the wire
        runs = [("vdbg", "dbg", "struct"), ("vrel", "rel", "struct"), ("vrel", "rel", "int"), ("vrel", "rel", "opt"), ("vdbg", "dbg", "str"), ("vrel", "rel", "tuple"),
                ("vrel", "rel", "u128"), ("vrel", "rel", "map")]
    for prof, b, payload in runs:
        tag = b if payload is None else f"{b}-{payload}"
        part = os.path.join(ctx["TARGET"], "partials", f"{prop}-{tag}.json")
        dig = os.path.join(ctx["TARGET"], "partials", f"{prop}-{tag}.dig")
        for f in (part, dig):
            if os.path.exists(f):
                os.remove(f)
        cmd = [_itv(ctx, prof), "run", "--prop", prop, "--tier", tier, "--seed", str(seed), "--build", b, "--out", part, "--digests", dig]
        if payload:
            cmd += ["--payload", payload]
        if tier != "thorough" and b == "dbg":
            cmd += ["--no-big"]  # quick: the > 65 536-slot histories run in the release build only
        if exclude:
            cmd += ["--exclude", ",".join(exclude)]
        rc, out, dt = ctx["sh"](cmd, timeout=6 * 3600)
        res["output"] += out
        if rc == 3:
            # watchdog: one case did not finish.  Confirm in a fresh process before believing it.
            m = re.search(r"HANG property=\S+ replay=(\S+)", out)
            path = m.group(1) if m else ""
            cmd2 = [_itv(ctx, prof), "replay", "--prop", prop, "--file", path, "--any-sig"] + (["--payload", payload] if payload else [])
            rc2, out2, _ = ctx["sh"](cmd2, timeout=360)
            if rc2 == 124:
                if prop == "C02":
                    res["violations"].append((path, f"[{tag} build] a call of this history does not return (confirmed twice: > 180 s and > 360 s; normally milliseconds)"))
                else:
                    res["inconclusive"] = f"a case hangs ({path}); a call that does not return is judged by the C02 check"
            elif rc2 == 1 and "REPLAY-FAILS" in out2:
                res["violations"].append((path, f"[{tag} build] " + "; ".join(l.strip() for l in out2.splitlines() if "FAIL" in l)[:400]))
            else:
                res["inconclusive"] = f"watchdog fired but the case finished when replayed ({path}); machine overloaded?"
            break
        if rc not in (0, 1) or not os.path.exists(part):
            res["inconclusive"] = f"runner ({tag}) exited with {rc}"
            continue
        p = json.load(open(part))
        if payload:
            p["label"] = f"payload on the wire: {payload} ({b} build)"
            p["distinct_group"] = payload
        res["partials"].append(p)
        if rc == 1 and p.get("violation"):
            v = p["violation"]
            note = f" (replay with: target/deser/{prof}/itv replay --prop C16 --payload {payload} --file <replay>)" if payload else ""
            res["violations"].append((v["replay"], f"[{tag} build] {v['sig']}: {v['msg']}{note}"))
            if payload:
                # remember the payload shape inside the replay file so that ./check --replay can pick it
                try:
                    rf = json.load(open(v["replay"]))
                    rf["note"] = f"payload={payload}"
                    json.dump(rf, open(v["replay"], "w"), indent=1)
                except Exception:
                    pass
            break
        if os.path.exists(dig) and payload is None:
            digests[b] = open(dig).read().splitlines()
    if tier == "thorough" and not res["violations"] and prop == "C14":
        part, viols, note = fuzz_campaign(ctx, "pretty", prop, runs_per_proc=150000)
        if part:
            res["partials"].append(part)
        res["violations"] += viols
        if note:
            res["output"] += note + "\n"
    elif tier == "thorough" and not res["violations"] and prop not in ("C13", "C16", "C06"):
        part, viols, note = fuzz_campaign(ctx, "hist", prop, runs_per_proc=3000)
        if part:
            res["partials"].append(part)
        res["violations"] += viols
        if note:
            res["output"] += note + "\n"
    # debug and release builds must agree on every history (C05: "in debug and release builds alike")
    def _dmap(lines):
        return {int(l.split()[0]): l.split()[1] for l in lines if l.strip()}

    differing = []
    if prop == "C05" and not res["violations"] and len(digests) == 2:
        d1, d2 = _dmap(digests["dbg"]), _dmap(digests["rel"])
        # compare the histories both builds executed (the big-arena sub-run is release-only in quick)
        differing = sorted(k for k in d1.keys() & d2.keys() if d1[k] != d2[k])
    if differing:
        case = differing[0]
        worker, ci = case >> 32, case & 0xFFFFFFFF
        if worker < 1000:
            rc, out, _ = ctx["sh"]([_itv(ctx, "vdbg"), "emit", "--prop", prop, "--seed", str(seed), "--worker", str(worker), "--case", str(ci)], timeout=600)
        else:
            out = "[]"  # long / big-arena sub-runs use derived seeds and profiles: only the case index is reported
        os.makedirs(os.path.join(ctx["VERIF"], "replays", prop), exist_ok=True)
        path = os.path.join(ctx["VERIF"], "replays", prop, f"dbg-vs-rel-{worker}-{ci}.json")
        try:
            ops = json.loads(out.strip().splitlines()[-1])
        except Exception:
            ops = []
        json.dump(dict(property=prop, profile=prop, sig="dbg-vs-rel/digest", message="debug-assertion build and release build disagree on this history",
                       found_by=f"digest comparison worker {worker} case {ci}", seed=seed, build="dbg+rel", ops=ops, trace=[], note=""), open(path, "w"), indent=1)
        res["violations"].append((path, "debug and release builds observe different results for the same history"))
    return res


def replay_history_prop(ctx):
    build_itv(ctx)
    worst = 0
    extra = []
    try:
        m = re.match(r"payload=(\w+)", json.load(open(ctx["replay"])).get("note", ""))
        if m:
            extra = ["--payload", m.group(1)]
    except Exception:
        pass
    for prof in ("vdbg", "vrel"):
        rc, out, _ = ctx["sh"]([_itv(ctx, prof), "replay", "--prop", ctx["prop"], "--file", ctx["replay"]] + extra, timeout=3600)
        print(f"--- {prof}")
        print(out.rstrip())
        if rc == 1:
            worst = 1
        elif rc != 0 and worst == 0:
            worst = 2
    if worst == 1:
        print(f"VIOLATION property={ctx['prop']} replay={ctx['replay']}")
    return worst


# ------------------------------------------------------------------------------------------------
# C17: the same battery under several feature sets of indextree

ALL_FEATURES = ["std", "macros", "par_iter", "deser"]


def feature_sets(tier):
    if tier == "thorough":
        sets = []
        for m in range(16):
            sets.append(",".join(f for i, f in enumerate(ALL_FEATURES) if m >> i & 1))
        # default first: it is the reference
        sets.remove("std,macros")
        return ["std,macros"] + sets
    return ["std,macros", "", "std", "std,macros,par_iter,deser"]


def _fname(fs):
    return "f-" + (fs.replace(",", "-") if fs else "nostd")


def c17_build(ctx, fs):
    td = os.path.join(ctx["TARGET"], _fname(fs))
    rc, out, dt = ctx["build"](["itv"], "vrel", features=fs, target_dir=td)
    return rc, out, os.path.join(td, "vrel", "itv")


def run_c17(ctx):
    prop, tier, seed = ctx["prop"], ctx["tier"], ctx["seed"]
    res = dict(partials=[], violations=[], known_lines=[], output="")
    ref = None
    os.makedirs(os.path.join(ctx["VERIF"], "replays", prop), exist_ok=True)
    for fs in feature_sets(tier):
        label = fs or "(none: no_std + alloc)"
        rc, out, exe = c17_build(ctx, fs)
        if rc != 0:
            if ref is None:
                ctx["fail_infra"](prop, "the default feature set does not build", out)
            path = os.path.join(ctx["VERIF"], "replays", prop, f"build-{_fname(fs)}.log")
            open(path, "w").write(out)
            res["violations"].append((path, f"feature set [{label}] does not compile although the default set does"))
            break
        part = os.path.join(ctx["TARGET"], "partials", f"{prop}-{_fname(fs)}.json")
        dig = os.path.join(ctx["TARGET"], "partials", f"{prop}-{_fname(fs)}.dig")
        for f in (part, dig):
            if os.path.exists(f):
                os.remove(f)
        rc, out, dt = ctx["sh"]([exe, "run", "--prop", prop, "--tier", tier, "--seed", str(seed), "--build", _fname(fs), "--out", part, "--digests", dig], timeout=6 * 3600)
        res["output"] += out
        if rc not in (0, 1) or not os.path.exists(part):
            res["inconclusive"] = f"runner [{label}] exited with {rc}"
            continue
        p = json.load(open(part))
        p["label"] = f"features: {label}"
        res["partials"].append(p)
        if rc == 1 and p.get("violation"):
            v = p["violation"]
            res["violations"].append((v["replay"], f"[features {label}] {v['sig']}: {v['msg']}"))
            break
        d = open(dig).read().splitlines()
        if ref is None:
            ref = (fs, d, exe)
        elif d != ref[1]:
            d1 = ref[1]
            idx = next((i for i in range(min(len(d1), len(d))) if d1[i] != d[i]), min(len(d1), len(d)))
            case = int(d1[idx].split()[0]) if idx < len(d1) else -1
            worker, ci = case >> 32, case & 0xFFFFFFFF
            if worker >= 1000:  # long-history worker ids are offset by 1000 and use their own seed/profile; report the index only
                ops = []
            else:
                rc2, out2, _ = ctx["sh"]([exe, "emit", "--prop", prop, "--seed", str(seed), "--worker", str(worker), "--case", str(ci)], timeout=600)
                try:
                    ops = json.loads(out2.strip().splitlines()[-1])
                except Exception:
                    ops = []
            path = os.path.join(ctx["VERIF"], "replays", prop, f"features-{_fname(fs)}-{worker}-{ci}.json")
            json.dump(dict(property=prop, profile=prop, sig="features/digest-differs", message=f"builds [{ref[0] or 'none'}] and [{label}] observe different results for this history",
                           found_by=f"digest comparison worker {worker} case {ci}", seed=seed, build=f"{_fname(ref[0])} vs {_fname(fs)}", ops=ops, trace=[], note=f"features_a={ref[0]};features_b={fs}"),
                      open(path, "w"), indent=1)
            res["violations"].append((path, f"feature sets [{ref[0]}] and [{label}] disagree (first differing history: worker {worker} case {ci})"))
            break
    return res


def replay_c17(ctx):
    """a C17 replay file is either a plain history (judged by the oracles in the default build) or a digest disagreement between two feature sets"""
    rf = json.load(open(ctx["replay"]))
    note = rf.get("note", "")
    m = re.match(r"features_a=(.*);features_b=(.*)", note)
    sets = [m.group(1), m.group(2)] if m else ["std,macros", "", "std,macros,par_iter,deser"]
    digs = []
    worst = 0
    for fs in sets:
        rc, out, exe = c17_build(ctx, fs)
        if rc != 0:
            print(out[-2000:])
            return 2
        rc, out, _ = ctx["sh"]([exe, "replay", "--prop", "C17", "--file", ctx["replay"], "--any-sig"], timeout=3600)
        print(f"--- features [{fs}]")
        print(out.rstrip())
        if rc == 1:
            worst = 1
        rc, out, _ = ctx["sh"]([exe, "digest", "--prop", "C17", "--file", ctx["replay"]], timeout=3600)
        print(out.rstrip())
        digs.append(out.strip())
    if len(set(digs)) > 1:
        worst = 1
    if worst == 1:
        print(f"VIOLATION property=C17 replay={ctx['replay']}")
    return worst


# ------------------------------------------------------------------------------------------------
# C15: generated programs containing tree! literals


def run_c15(ctx):
    prop, tier, seed = ctx["prop"], ctx["tier"], ctx["seed"]
    res = dict(partials=[], violations=[], known_lines=[], output="")
    rc, out, dt = ctx["build"](["itv-c15"], "vrel")
    if rc != 0:
        ctx["fail_infra"](prop, "itv-c15 does not build", out)
    part = os.path.join(ctx["TARGET"], "partials", f"{prop}.json")
    if os.path.exists(part):
        os.remove(part)
    rc, out, dt = ctx["sh"]([os.path.join(ctx["TARGET"], "vrel", "itv-c15"), "run", "--tier", tier, "--seed", str(seed), "--out", part], timeout=6 * 3600)
    res["output"] += out
    if rc in (0, 1) and os.path.exists(part):
        p = json.load(open(part))
        res["partials"].append(p)
        if rc == 1 and p.get("violation"):
            res["violations"].append((p["violation"]["replay"], p["violation"]["sig"] + ": " + p["violation"]["msg"]))
    else:
        res["inconclusive"] = f"itv-c15 exited with {rc} (generated crate could not be built/run for a reason no single literal reproduces)"
    return res


def replay_c15(ctx):
    rc, out, dt = ctx["build"](["itv-c15"], "vrel")
    if rc != 0:
        print(out[-2000:])
        return 2
    rc, out, _ = ctx["sh"]([os.path.join(ctx["TARGET"], "vrel", "itv-c15"), "replay", "--file", ctx["replay"]], timeout=3600)
    print(out.rstrip())
    if rc == 1:
        print(f"VIOLATION property=C15 replay={ctx['replay']}")
    return rc


# ------------------------------------------------------------------------------------------------
# C18: Send/Sync (compile-time), no unsafe / interior mutability (lexical tripwire, auxiliary),
# concurrent readers vs single thread (generated arenas), TSan in thorough

LEX = [
    (r"\bunsafe\b", "unsafe code"),
    (r"\bcell::\w|\b(RefCell|UnsafeCell|OnceCell|LazyCell)\b", "std::cell interior mutability"),
    (r"\batomic::\w|\bAtomic(Bool|Usize|Isize|U8|U16|U32|U64|I8|I16|I32|I64|Ptr)\b", "atomics"),
    (r"\b(Mutex|RwLock|Condvar|OnceLock|LazyLock)\b|\bsync::Once\b", "locks / once cells"),
    (r"\bstatic\s+mut\b", "static mut"),
    (r"\bthread_local!", "thread-local state"),
    (r"\b(parking_lot|once_cell|lazy_static|spin)::", "external interior-mutability crates"),
]


def strip_comments(src):
    out = []
    for line in src.splitlines():
        # drop line comments (good enough for this code base: no '//' inside string literals of the scanned items)
        i = line.find("//")
        out.append(line if i < 0 else line[:i])
    txt = "\n".join(out)
    return re.sub(r"/\*.*?\*/", "", txt, flags=re.S)


def lexical_scan(repo="/repo/indextree/src"):
    hits = []
    files = sorted(f for f in os.listdir(repo) if f.endswith(".rs"))
    for f in files:
        txt = strip_comments(open(os.path.join(repo, f)).read())
        for ln, line in enumerate(txt.splitlines(), 1):
            for rx, what in LEX:
                if re.search(rx, line):
                    hits.append(f"{f}:{ln}: {what}: {line.strip()[:120]}")
    lib = open(os.path.join(repo, "lib.rs")).read()
    if not re.search(r"#!\[forbid\([^)]*unsafe_code", strip_comments(lib)):
        hits.append("lib.rs: #![forbid(unsafe_code)] is missing")
    return files, hits


def run_c18(ctx):
    prop, tier, seed = ctx["prop"], ctx["tier"], ctx["seed"]
    res = dict(partials=[], violations=[], known_lines=[], output="")
    rdir = os.path.join(ctx["VERIF"], "replays", prop)
    os.makedirs(rdir, exist_ok=True)
    td = os.path.join(ctx["TARGET"], "c18")
    extra = {}
    # (1) lexical tripwire (auxiliary, states the clause literally)
    files, hits = lexical_scan()
    extra["lexical_tripwire"] = dict(files_scanned=files, hits=hits, note="auxiliary guard, not generated-input search")
    if hits:
        path = os.path.join(rdir, "lexical-scan.txt")
        open(path, "w").write("\n".join(hits) + "\n")
        res["violations"].append((path, "the crate source contains unsafe code / interior mutability:\n" + "\n".join(hits[:6])))
    # (2) type-level clause: decided by compiling the assertions for every T: Send + Sync
    rc, out, dt = ctx["build"](["itv-core"], "vrel", target_dir=td)
    if rc != 0:
        ctx["fail_infra"](prop, "harness core does not build", out)
    rc, out, dt = ctx["build"](["itv-c18-static"], "vrel", target_dir=td)
    if rc == 0:
        # the same assertions against indextree built without std (auto traits may differ per feature set)
        rcn, outn, _ = ctx["build"](["itv-c18-static"], "vrel", features="", target_dir=os.path.join(ctx["TARGET"], "c18-nostd"))
        if rcn != 0:
            rc, out = rcn, "[indextree built with --no-default-features]\n" + outn
    if rc != 0:
        path = os.path.join(rdir, "send-sync-compile.log")
        open(path, "w").write(out)
        msg = [l for l in out.splitlines() if l.startswith("error")][:3]
        res["violations"].append((path, "Send/Sync assertions for Arena<T>, Node<T>, NodeId no longer compile:\n" + "\n".join(msg)))
        extra["send_sync_compile_time"] = "FAILED"
    else:
        rc, out, dt = ctx["sh"]([os.path.join(td, "vrel", "itv-c18-static")], timeout=600)
        extra["send_sync_compile_time"] = "compiled for every T: Send + Sync; shared/moved arena smoke run: " + out.strip()
        if rc != 0:
            path = os.path.join(rdir, "send-sync-run.log")
            open(path, "w").write(out)
            res["violations"].append((path, "sharing / moving an arena between threads misbehaved: " + out.strip()[-300:]))
    # (3) generated arenas x 16 concurrent readers
    if not res["violations"]:
        rc, out, dt = ctx["build"](["itv-c18"], "vrel", target_dir=td)
        if rc != 0:
            ctx["fail_infra"](prop, "itv-c18 does not build", out)
        part = os.path.join(ctx["TARGET"], "partials", f"{prop}-rel.json")
        if os.path.exists(part):
            os.remove(part)
        rc, out, dt = ctx["sh"]([os.path.join(td, "vrel", "itv-c18"), "run", "--tier", tier, "--seed", str(seed), "--out", part, "--build", "rel"], timeout=6 * 3600)
        res["output"] += out
        if rc in (0, 1) and os.path.exists(part):
            p = json.load(open(part))
            p["extra"] = extra
            res["partials"].append(p)
            if rc == 1 and p.get("violation"):
                res["violations"].append((p["violation"]["replay"], p["violation"]["msg"]))
        else:
            res["inconclusive"] = f"itv-c18 exited with {rc}"
    # (4) thorough: the same under ThreadSanitizer
    if tier == "thorough" and not res["violations"]:
        env = dict(ctx["ENV"], RUSTFLAGS="-Zsanitizer=thread")
        tdt = os.path.join(ctx["TARGET"], "c18-tsan")
        rc, out, dt = ctx["build"](["itv-c18"], "vrel", target_dir=tdt, nightly=True, extra=["-Zbuild-std", "--target", "x86_64-unknown-linux-gnu"], env=env)
        if rc != 0:
            res["inconclusive"] = "ThreadSanitizer build failed (infrastructure)"
            res["output"] += out[-1500:]
        else:
            part = os.path.join(ctx["TARGET"], "partials", f"{prop}-tsan.json")
            if os.path.exists(part):
                os.remove(part)
            exe = os.path.join(tdt, "x86_64-unknown-linux-gnu", "vrel", "itv-c18")
            env2 = dict(ctx["ENV"], TSAN_OPTIONS="halt_on_error=1 exitcode=66")
            rc, out, dt = ctx["sh"]([exe, "run", "--tier", tier, "--seed", str(seed ^ 0x75A), "--out", part, "--build", "tsan", "--cases", "1500"], timeout=6 * 3600, env=env2)
            res["output"] += out[-3000:]
            if rc == 66 or "ThreadSanitizer: data race" in out:
                path = os.path.join(rdir, "tsan-report.txt")
                open(path, "w").write(out)
                res["violations"].append((path, "ThreadSanitizer reported a data race between concurrent readers"))
            elif rc in (0, 1) and os.path.exists(part):
                p = json.load(open(part))
                p["distinct_group"] = "tsan"
                res["partials"].append(p)
                if rc == 1 and p.get("violation"):
                    res["violations"].append((p["violation"]["replay"], p["violation"]["msg"]))
            else:
                res["inconclusive"] = f"itv-c18 (tsan) exited with {rc}"
    if not res["partials"]:
        # keep the evidence file meaningful even when only the static clauses ran
        res["partials"].append(dict(build="static", label="compile-time and lexical clauses only", evaluations=len(files) + 1, distinct_nontrivial=0, samples=hits[:5] or ["(no hits)"], extra=extra))
    return res


def replay_c18(ctx):
    td = os.path.join(ctx["TARGET"], "c18")
    f = ctx["replay"]
    if not f.endswith(".json"):
        # compile log / lexical scan: re-run the static clauses
        files, hits = lexical_scan()
        rc, out, dt = ctx["build"](["itv-c18-static"], "vrel", target_dir=td)
        for h in hits:
            print(h)
        if rc != 0:
            print(out[-2000:])
        bad = bool(hits) or rc != 0
        if bad:
            print(f"VIOLATION property=C18 replay={f}")
        return 1 if bad else 0
    rc, out, dt = ctx["build"](["itv-c18"], "vrel", target_dir=td)
    if rc != 0:
        print(out[-2000:])
        return 2
    rc, out, _ = ctx["sh"]([os.path.join(td, "vrel", "itv-c18"), "replay", "--file", f], timeout=3600)
    print(out.rstrip())
    if rc == 1:
        print(f"VIOLATION property=C18 replay={f}")
    return rc


# ------------------------------------------------------------------------------------------------


def merge_coverage(prop, partials, spec):
    """Sum evaluations over sub-runs; distinct_nontrivial is the maximum over builds (the two builds
    execute the same generated cases, so their distinct sets coincide and must not be added)."""
    ev = sum(p.get("evaluations", 0) for p in partials)
    groups = {}
    for p in partials:
        g = p.get("distinct_group", "default")
        groups[g] = max(groups.get(g, 0), p.get("distinct_nontrivial", 0))
    nt = sum(groups.values())
    samples = []
    for p in partials:
        for s in p.get("samples", []):
            if len(samples) < 8:
                samples.append(s)
    if not samples:
        samples = ["(no sample recorded)"]
    cov = dict(evaluations=ev, distinct_nontrivial=nt, rule=spec["rule"], samples=samples)
    exh = []
    for p in partials:
        for e in (p.get("engines", {}) or {}).get("exhaustive", []) or []:
            exh.append(dict(e, build=p.get("build")))
    if exh:
        cov["exhaustive_subruns"] = exh
        cov["exhaustive"] = False  # the run as a whole is a bounded exploration; see exhaustive_subruns
    cov["sub_runs"] = [
        {k: p.get(k) for k in ("build", "label", "evaluations", "distinct_nontrivial", "cases", "steps", "skipped_ops", "excluded_by_construction", "engines", "features",
                                 "max_live_hist", "max_depth_hist", "generator_health", "other_property_failures", "slowest_case_ms", "wall_s", "extra") if k in p}
        for p in partials
    ]
    # the op x relation matrix of the first sub-run (identical generation in the others)
    if partials and partials[0].get("classes"):
        cov["generated_classes"] = partials[0]["classes"]
    return cov


RULES["C14"] = "Generated documents: forest spec (each node attaches below the previous node, beside it, below a generated earlier node, or starts/extends a top-level chain; built with append_value / append / prepend) x four independent renderings per payload (1-4 lines, empty first/interior lines, guide look-alike text, tabs, multi-byte chars; last line non-empty) x a chunking plan for the payload's write_str calls. EVERY node is used as start node in all four format modes; oracle = independent reference renderer (exact comparison; trailing blanks ignored only on empty payload lines). An evaluation is one (document, start node, mode). Non-trivial: start node with siblings and children, or a multi-line payload at relative depth >= 2 below a last-sibling ancestor; distinct by printed text."

RULES["C16"] = "Histories (removal-heavy, recycling, clear, rare generation-exhausting churn) with Roundtrip ops, run over seven payload shapes on the wire (struct, bare integer, Option that may be null, string, tuple, u128, map with integer keys): the arena is serialised with serde_json and deserialised; the copy must be == the original, serialise to the same text, agree on is_removed for EVERY id ever issued, and then executes the rest of the history in lock-step with the original (same outcomes, Arena == after every call, and the copy is checked against the reference model as well). Non-trivial: the free list is non-empty at the round trip and a later call allocates; distinct by (forest shape, number of free / recycled / retired slots)."

SPECS = {p: history_spec(p) for p in RULES}
RULES["C17"] = "One seeded battery (E(3,3) exhaustively + generated histories over the whole core API: ids, links, errors with their Display text, nine traversals from every node, four pretty-printer modes, lookups, double-ended pulls) is executed by the same harness built against indextree with each feature set (quick: default, none = no_std+alloc, std, all four; thorough: all 16 subsets). Oracle: differential — per-history observation digests must be identical across builds; every build is also checked against the reference model; in par_iter builds the multiset of nodes visited by par_iter() must equal iter() at every sampled state. Non-trivial: a history with >= 1 error result and >= 1 recycled slot; distinct by (call class, forest shape)."
SPECS["C17"] = dict(run=run_c17, replay=replay_c17, rule=RULES["C17"], assumptions=ASSUME + ["one target triple (x86_64-unknown-linux-gnu); the no_std build is linked into a std harness"])
RULES["C18"] = "Generated arenas (histories with moves, removals, recycling; payload = plain data) are read by 16 threads at once (barrier start, 3-4 repetitions), each running a generated program of 8-31 reads (nine traversals incl. rev(), pretty printer, whole-arena iter/par_iter folds, get_node_id) from generated start nodes; oracle = the same programs run on one thread beforehand; an arena moved into another thread must behave the same. An evaluation is one read compared. Thorough repeats the run under ThreadSanitizer. Non-trivial: arena with >= 4 live nodes and depth >= 2; distinct by forest shape. The type-level clause is decided by compiling generic Send+Sync assertions; 'no unsafe / no interior mutability' by a lexical tripwire (auxiliary, reported under extra)."
SPECS["C18"] = dict(run=run_c18, replay=replay_c18, rule=RULES["C18"], assumptions=["schedules are whatever the OS produces: 'every scheduling' is sampled, not enumerated (out of reach for this technique family)", "the type-level clause is decided by rustc on a generic function, the lexical scan covers indextree/src/*.rs only"])
RULES["C15"] = "Generated PROGRAMS: tree literals from a grammar (nesting depth <= 8 generated / 30 in fixed stress literals, width <= 6 generated / 40 fixed; root as value or as existing NodeId with 0-3 children inside a larger tree; optional '=> {}' on root and leaves; trailing commas at every level and after the literal; (), {} and [] macro delimiters; 12 syntactic shapes of node expressions incl. blocks, match/if with '=>' and braces, closures; four spellings of the arena expression) are written into one crate per batch with the expected forest and the expected side-effect log as data, compiled against /repo and run. Oracle: returned id, number of created nodes, parent/child structure and sibling order by links, payload of every node, surroundings of an existing root, evaluation log (arena once, then root, then node expressions in textual order, each once); a literal that does not compile is a violation. An evaluation is one literal. Non-trivial: depth >= 2 and a node with children that is not the last sibling; distinct by source text with numbers removed."
SPECS["C15"] = dict(run=run_c15, replay=replay_c15, rule=RULES["C15"], assumptions=["the grammar above bounds the program space; payload type u32; expressions are generated from 12 fixed syntactic shapes", "the generated crate is built with the dev profile against /repo/indextree with default features"])
SPECS["C16"]["assumptions"] = ASSUME + ["one self-describing data format (serde_json) carries the derives under test; non-self-describing formats are not exercised"]
SPECS["C14"]["assumptions"] = ["payload renderings are non-empty and do not end in a newline (the property's precondition), by construction", "documents have <= 20 (quick) / 28 (thorough) nodes, payloads <= 4 lines"]
