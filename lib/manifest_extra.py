"""Checks outside the history engine (C14..C18) register here as they are built."""


def register(CHECKS, NOT_YET, ENGINES, EXTRA_ENGINE, EXTRA_NOTE):
    CHECKS["C14"] = ("§7.14", "PBT: generated documents (shape x multi-line payloads x write chunking) vs independent reference renderer, every start node, four format modes",
                     "Generated documents are printed from every node in all four format modes (debug-assertion and release build) and compared line by line with a reference renderer written from the property text; panics are caught and reported. Sampled, not exhaustive.")
    EXTRA_NOTE["C14"] = "Trusted base: the reference renderer in harness/core/src/pretty.rs, proptest, rustc. Documents bounded to <= 28 nodes and <= 4 lines per payload."
    CHECKS["C16"] = ("§7.16", "round-trip PBT through serde_json inside generated histories; lock-step continuation of original and copy",
                     "With the deser feature enabled, generated histories serialise and deserialise the arena at generated points; equality, re-serialisation, is_removed of every historical id, and identical behaviour of copy and original under the remaining calls are checked. Run over seven payload shapes on the wire. Sampled states, one data format.")
    EXTRA_NOTE["C16"] = "Trusted base: serde / serde_json (as carrier), the reference model, proptest. Built with indextree feature deser in its own target directory."
    CHECKS["C17"] = ("§7.17", "differential PBT across cargo feature sets: identical observation digests for one seeded battery; par_iter multiset = iter",
                     "The same seeded battery of generated and exhaustively enumerated histories is executed by harness binaries built against every feature set (4 in quick, all 16 in thorough); per-history digests of everything observable must agree, each build is also judged by the model oracles, and par_iter() is compared with iter() in par_iter builds. A feature set that stops compiling is reported as well.")
    EXTRA_NOTE["C17"] = "Trusted base: cargo feature resolution (resolver 2, one target dir per feature set), the digest function (FNV/splitmix over textual observations), the reference model. One target triple only."
    CHECKS["C18"] = ("§7.18", "PBT over generated arenas with 16 concurrent reader programs vs single-thread oracle (TSan in thorough); compile-time Send/Sync assertions and a lexical tripwire as auxiliary guards",
                     "Generated arenas are read concurrently by 16 threads running generated read programs (all traversals, pretty printer, par_iter) and every read is compared with the single-threaded result; thorough repeats this under ThreadSanitizer. The 'for every T' clause is decided by compiling a generic Send+Sync assertion, the 'no unsafe / no interior mutability' clause by a source scan. Schedules are sampled only: the 'every scheduling' quantifier is out of reach for this technique and is not claimed beyond sampling.")
    EXTRA_NOTE["C18"] = "Trusted base: rustc's auto-trait checking, the OS scheduler as schedule source, ThreadSanitizer (thorough), a regex scan of indextree/src. No schedule enumeration."
    ENGINES.append({"name": "itv-c18", "path": "harness/c18 + harness/c18s", "serves_properties": ["C18"], "kind_free_text": "generated arenas x 16 reader threads differential; compile-time Send/Sync crate; TSan build"})
    EXTRA_ENGINE["C18"] = "itv-c18"
    CHECKS["C15"] = ("§7.15", "PBT over generated programs: grammar-generated tree! literals compiled against /repo, observed forest + side-effect log vs generator-computed expectation",
                     "The inputs are generated Rust programs: hundreds (quick) to thousands (thorough) of tree literals from a grammar are compiled in batch crates against the repository and run; each literal's resulting forest, returned id, node count and evaluation log are compared with what the generator computed; failing literals are shrunk by batch-compiled candidates. Bounded grammar; sampled.")
    EXTRA_NOTE["C15"] = "Trusted base: the literal renderer/expectation generator in harness/c15, rustc and cargo (one build per batch). Program space bounded by the grammar."
    ENGINES.append({"name": "itv-c15", "path": "harness/c15", "serves_properties": ["C15"], "kind_free_text": "proptest grammar generator for tree! programs + batch builder/runner/shrinker"})
    EXTRA_ENGINE["C15"] = "itv-c15"
    for pid in ():
        NOT_YET[pid] = "check under construction in this session (see DESIGN.md §7); not claimed until its machinery is committed"
