"""Checks outside the history engine (C14..C18) register here as they are built."""


def register(CHECKS, NOT_YET, ENGINES, EXTRA_ENGINE, EXTRA_NOTE):
    CHECKS["C14"] = ("§7.14", "PBT: generated documents (shape x multi-line payloads x write chunking) vs independent reference renderer, every start node, four format modes",
                     "Generated documents are printed from every node in all four format modes (debug-assertion and release build) and compared line by line with a reference renderer written from the property text; panics are caught and reported. Sampled, not exhaustive.")
    EXTRA_NOTE["C14"] = "Trusted base: the reference renderer in harness/core/src/pretty.rs, proptest, rustc. Documents bounded to <= 28 nodes and <= 4 lines per payload."
    CHECKS["C16"] = ("§7.16", "round-trip PBT through serde_json inside generated histories; lock-step continuation of original and copy",
                     "With the deser feature enabled, generated histories serialise and deserialise the arena at generated points; equality, re-serialisation, is_removed of every historical id, and identical behaviour of copy and original under the remaining calls are checked. Sampled states, one data format.")
    EXTRA_NOTE["C16"] = "Trusted base: serde / serde_json (as carrier), the reference model, proptest. Built with indextree feature deser in its own target directory."
    for pid in ("C15", "C17", "C18"):
        NOT_YET[pid] = "check under construction in this session (see DESIGN.md §7); not claimed until its machinery is committed"
