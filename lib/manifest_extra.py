"""Checks outside the history engine (C14..C18) register here as they are built."""


def register(CHECKS, NOT_YET, ENGINES, EXTRA_ENGINE, EXTRA_NOTE):
    for pid in ("C14", "C15", "C16", "C17", "C18"):
        NOT_YET[pid] = "check under construction in this session (see DESIGN.md §7); not claimed until its machinery is committed"
