#!/usr/bin/env python3
"""Regenerates /verif/MANIFEST.json from the table below (keeps the manifest consistent)."""
import json, os

VERIF = os.path.dirname(os.path.dirname(os.path.abspath(__file__)))

HIST_NOTE = ("Trusted base: the harness's children-list reference model and observer (harness/core), proptest's generators, rustc. "
             "Bounded exploration: <= 48 live nodes, <= 60/250 calls per history, exhaustive only inside the stated small scopes; "
             "nothing is proved beyond what was executed.")

CHECKS = {
    "C01": ("§7.1", "model-free link well-formedness predicate after every step of generated + exhaustively enumerated call histories",
            "Stateful property-based testing: every history of <= 4 calls over <= 3 slots and every <= 2-call continuation of every forest shape with <= 4 nodes is enumerated exhaustively, plus thousands of proptest-generated histories with all-pairs probes; after every call (also rejected ones) the five links of every slot are checked against the well-formedness predicate. Gives high confidence for small scopes and sampled confidence beyond; no proof."),
    "C02": ("§7.2", "stateful PBT: bounded link walks + capped library iterators after every call, all-pairs insert probes",
            "Same history engines; acyclicity is decided structurally by the harness's own bounded walks right after each call, every library iterator is consumed through take(cap+1) from every live start node, and every (entry point, a, b) pair is probed on clones so that ancestor/descendant/sibling/self relations are hit by construction."),
    "C03": ("§7.3", "model-based stateful PBT (children-list reference model; all five links of every slot compared)",
            "Differential against an independent children-list model: after every successful insert/move/detach/append_value all five links of every slot must equal the links derived from the model (effect and frame condition); in-place re-insertion must leave Arena == snapshot; append_value must equal new_node+append on a clone."),
    "C04": ("§7.4", "model-based stateful PBT with per-state probes of remove/remove_subtree on every live node",
            "Every live node of sampled states (and every node of every small shape, exhaustively) is removed on a clone with remove and remove_subtree; survivors' links and the exact set of flipped removed-flags are compared with the model."),
    "C05": ("§7.5", "all-pairs probe enumeration at generated states vs spec predicate; snapshot equality; debug-vs-release differential",
            "Exhaustive argument-pair enumeration (8 entry points x every ordered id pair, live and removed) at every state of the small-scope enumeration and at sampled states of random histories, in a debug-assertions build and a release build; Err/panic iff impossible, applicable reason, Arena == snapshot afterwards, digest equality between the builds."),
    "C06": ("§7.6", "stateful PBT with slot-churn macro operations crossing the 16-bit generation range; id-uniqueness set + is_removed ledger",
            "Generated alloc/remove histories whose churn macro-op recycles one slot up to 70 000 times (classes around 32 767 and 65 535 are generated on purpose): every issued id is checked against the set of all earlier ids and older generations are re-queried with is_removed."),
    "C07": ("§7.7", "model-based stateful PBT (free-set model, drain-a-clone observation)",
            "Allocation/removal interleavings against a free-SET model (reuse order not assumed): returned slot and count() are judged at every allocation, bystander rows must be unchanged, and at probe states a clone is drained until it grows, which must hand out exactly the free set."),
    "C08": ("§7.8", "stateful PBT over a drop-instrumented payload; per-step exact destructor ledger",
            "Histories over a payload with identity and a drop log: after every call every live node's payload must be the one stored, and the multiset of payloads destroyed by that call must be exactly the expected one; at the end every payload was destroyed exactly once."),
    "C09": ("§7.9", "model-based PBT: every iterator from every start node vs sequences derived from the reference model",
            "All nine traversals and NodeEdge stepping are compared, from every live start node of every reached forest (random histories incl. moves/removals/recycling; all small shapes exhaustively), with the sequences computed from the children-list model."),
    "C10": ("§7.10", "PBT with exhaustive pull-pattern enumeration (<= 2^10 patterns per node and iterator) against deque semantics",
            "For every live node and the three double-ended iterators every front/back pull pattern up to length 10 is executed (sampled patterns beyond) and compared with a deque over the model's forward sequence; rev() as well."),
    "C11": ("§7.11", "stateful PBT: cross-agreement of all lookup paths on every slot incl. out-of-range positions and foreign references",
            "At probe states of histories with removals and recycling every slot is looked up through every path (pointer identity of get/Index/get_mut/IndexMut/as_slice/iter, get_node_id, get_node_id_at, conversions), plus out-of-range positions and foreign node references."),
    "C12": ("§7.12", "stateful PBT: removed-slot inertness after every step + all-pairs refusal probes with snapshot equality",
            "After every call every removed-not-recycled slot must report no links; at probe states every insert entry point with the removed id in either position (and append_value on it) must be refused without changing the arena; live links/traversals never lead to it."),
    "C13": ("§7.13", "differential PBT: replica arenas, clone/clear points, continuations compared with Arena ==",
            "Generated prefix/continuation pairs: replays on fresh arenas must be equal and return the same ids; a clone and its original continue independently and must equal replicas that never saw a clone; a cleared arena must behave like Arena::new() under any continuation while keeping capacity."),
}

NOT_YET = {}

ENGINES = [
    {"name": "itv", "path": "harness/runner", "serves_properties": sorted(CHECKS), "kind_free_text": "op-IR history interpreter with reference model; proptest random engine, exhaustive small-scope enumerators E(d,k)/E'(depth,n), ddmin shrinker, replay tier"},
]


def main():
    checks = []
    for pid in sorted(CHECKS):
        ref, technique, text = CHECKS[pid]
        checks.append({
            "property_id": pid,
            "quick_cmd": f"./check {pid} quick",
            "thorough_cmd": f"./check {pid} thorough",
            "evidence_file": f"/verif/evidence/{pid}.json",
            "replay_cmd_template": f"./check {pid} --replay {{path}}",
            "engine": EXTRA_ENGINE.get(pid, "itv"),
            "level_claimed": {"category": "exploration", "text": text, "design_ref": f"DESIGN.md {ref}"},
            "level_note": EXTRA_NOTE.get(pid, HIST_NOTE),
            "technique": technique,
        })
    man = {
        "version": 1,
        "setup_cmd": "./setup.sh",
        "hooks": {
            "guard": "--cfg indextree_verif",
            "enable": "no source hooks are needed: every observation goes through the public API; the guard name is reserved and unused",
            "baseline_off_cmd": "cd /repo && cargo test --workspace --no-fail-fast --offline",
            "source_commits": [],
            "add_only": True,
        },
        "engines": ENGINES,
        "checks": checks,
        "notes": "All checks are property-based testing / fuzzing (exploration level). Exit 0 held, 1 violation (VIOLATION line), 2 inconclusive. Six genuine defects (D1-D6) were found by the checks and repaired in /repo by 'fix:' commits; see KNOWN_FINDINGS.txt and DESIGN.md §9.",
        "not_applicable": [{"property_id": k, "reason": v} for k, v in sorted(NOT_YET.items())],
    }
    with open(os.path.join(VERIF, "MANIFEST.json"), "w") as f:
        json.dump(man, f, indent=1)
    print("MANIFEST.json written:", len(checks), "checks,", len(NOT_YET), "not claimed")


EXTRA_ENGINE = {}
EXTRA_NOTE = {}

if __name__ == "__main__":
    import sys
    sys.path.insert(0, os.path.dirname(os.path.abspath(__file__)))
    try:
        import manifest_extra  # later properties register themselves here
        manifest_extra.register(CHECKS, NOT_YET, ENGINES, EXTRA_ENGINE, EXTRA_NOTE)
    except ImportError:
        pass
    main()
