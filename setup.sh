#!/bin/sh
# Build the verification harness from files on disk only (offline).  Run once after a fresh restore.
# Every check rebuilds what it needs itself (cargo is incremental), so this only warms the caches.
set -e
cd "$(dirname "$0")/harness"
export CARGO_NET_OFFLINE=true CARGO_TERM_COLOR=never
T=/verif/target
cargo build --offline --profile vdbg -p itv
cargo build --offline --profile vrel -p itv -p itv-c15
for p in vdbg vrel; do
  cargo build --offline --profile $p -p itv --no-default-features --features std,deser --target-dir $T/deser
done
cargo build --offline --profile vrel -p itv --no-default-features --features std,macros --target-dir $T/f-std-macros
cargo build --offline --profile vrel -p itv --no-default-features --features "" --target-dir $T/f-nostd
cargo build --offline --profile vrel -p itv --no-default-features --features std --target-dir $T/f-std
cargo build --offline --profile vrel -p itv --no-default-features --features std,macros,par_iter,deser --target-dir $T/f-std-macros-par_iter-deser
cargo build --offline --profile vrel -p itv-core -p itv-c18-static -p itv-c18 --target-dir $T/c18
echo "setup done"
