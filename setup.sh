#!/bin/sh
# Build the verification harness from files on disk only (offline).  Run once after a fresh restore.
set -e
cd "$(dirname "$0")/harness"
export CARGO_NET_OFFLINE=true
cargo build --offline --profile vdbg -p itv
cargo build --offline --profile vrel -p itv
